"""Generic driver: corpus replay -> exhaustive enumeration -> Hypothesis generation (sharded),
known-finding filtering, shrinking to a JSON replay file, evidence, exit codes."""

from __future__ import annotations

import importlib
import json
import os
import sys
import time
import traceback
import warnings

from hv import env

# hypothesis computes the repr of a deeply nested strategy for its own diagnostics: costs time, tells nothing here
warnings.filterwarnings("ignore", message="Generating overly large repr")
from hv.evidence import Recorder, canon, case_hash
from hv.evidence import write as write_evidence
from hv.findings import Known


class Outcome:
    """Result of executing one case against the real code."""

    __slots__ = ("violations", "nontrivial", "classes", "unspecified", "sample", "counts")

    def __init__(self, violations=None, nontrivial=False, classes=(), unspecified=(), sample=None):
        self.violations = list(violations or [])
        self.nontrivial = nontrivial
        self.classes = list(classes)
        self.unspecified = list(unspecified)
        self.sample = sample
        self.counts = {}  # additive counters reported in evidence (e.g. executions per program)

    def violate(self, sub: str, sig: str, detail) -> None:
        self.violations.append({"sub": sub, "sig": sig, "detail": detail})


CASE_DEADLINE_S = 60


class CaseTimeout(BaseException):
    pass


class _case_deadline:
    """per-case wall-clock guard (SIGALRM, main thread only): keeps a check from hanging on a tree whose mutation
    introduced a busy loop; never a correctness signal"""

    def __init__(self, seconds):
        self.seconds = seconds
        self.armed = False

    def __enter__(self):
        import signal
        import threading

        if threading.current_thread() is threading.main_thread() and hasattr(signal, "SIGALRM"):
            def _raise(signum, frame):
                signal.alarm(5)  # keep interrupting until the case has really been abandoned
                raise CaseTimeout()

            self.old = signal.signal(signal.SIGALRM, _raise)
            signal.alarm(self.seconds)
            self.armed = True
        return self

    def __exit__(self, *exc):
        if self.armed:
            import signal

            signal.alarm(0)
            signal.signal(signal.SIGALRM, self.old)
        return False


class Falsified(Exception):
    def __init__(self, verdicts):
        super().__init__(verdicts[0]["sig"] if verdicts else "falsified")
        self.verdicts = verdicts


def _haiway_frame(tb) -> str | None:
    src = os.path.realpath(os.environ.get("HAIWAY_SRC", "/repo/src"))
    found = None
    for fs in traceback.extract_tb(tb):
        if os.path.realpath(fs.filename).startswith(src + os.sep):
            found = f"{os.path.basename(fs.filename)}:{fs.name}"
    return found


class Judge:
    """Wraps a property module: runs a case, records evidence, filters known findings."""

    def __init__(self, mod, rec: Recorder):
        self.mod = mod
        self.rec = rec
        self.known = Known(mod.PID)

    def __call__(self, case) -> list[dict]:
        try:
            with _case_deadline(CASE_DEADLINE_S):
                out: Outcome = self.mod.run_case(case)
        except CaseTimeout:
            # a wall-clock budget hit is INCONCLUSIVE, never a violation (e.g. a busy loop in a broken tree); it is
            # counted and reported in evidence so that it cannot go unnoticed
            self.rec.extra["cases_timed_out_inconclusive"] = self.rec.extra.get("cases_timed_out_inconclusive", 0) + 1
            if len(self.rec.notes) < 5:
                self.rec.notes.append(f"case exceeded {CASE_DEADLINE_S}s wall clock (inconclusive): {canon(case)[:300]}")
            return []
        except env.HarnessError:
            raise
        except BaseException as exc:  # noqa: BLE001
            if isinstance(exc, (KeyboardInterrupt, SystemExit, MemoryError)):
                raise
            where = _haiway_frame(exc.__traceback__)
            if where is None:
                raise env.HarnessError(
                    f"harness exception while running case {canon(case)[:400]}: "
                    + "".join(traceback.format_exception(exc))[-3000:]
                ) from exc
            out = Outcome(nontrivial=False)
            out.violate(
                "crash",
                f"{self.mod.PID}.crash/{type(exc).__name__}/{where}",
                "".join(traceback.format_exception(exc))[-2000:],
            )
        self.rec.case(case, out.nontrivial, out.classes, out.unspecified, out.sample)
        if not self.rec.shrinking:
            for ck, cv in out.counts.items():
                self.rec.extra[ck] = self.rec.extra.get(ck, 0) + cv
        remaining = []
        for v in out.violations:
            k = self.known.match(v["sig"])
            if k is not None:
                if not self.rec.shrinking:
                    self.rec.excluded[v["sig"]] += 1
                    self.rec.known_seen[k["id"]] += 1
            else:
                remaining.append(v)
        return remaining


def _case_size(case) -> int:
    return len(canon(case))


def hypothesis_search(mod, judge: Judge, tier: str, seed: int, shard: int, nshards: int):
    """Returns None or {"case":..., "verdicts":[...]} (shrunk)."""
    import hypothesis
    from hypothesis import HealthCheck, Phase, given, settings

    strat = mod.strategy(tier)
    if strat is None:
        return None
    n = mod.budget(tier)["examples"]
    if n <= 0:
        return None
    state = {"best": None, "first_t": None, "shrink_budget": 45.0 if tier == "quick" else 240.0}

    def body(case):
        if state["first_t"] is not None:
            judge.rec.shrinking = True
            if time.monotonic() - state["first_t"] > state["shrink_budget"]:
                # out of shrink budget: only the best known failing case still fails
                if canon(case) != canon(state["last"]["case"]):
                    return
        verdicts = judge(case)
        if verdicts:
            if state["first_t"] is None:
                state["first_t"] = time.monotonic()
            best = state["best"]
            if best is None or _case_size(case) <= _case_size(best["case"]):
                state["best"] = {"case": case, "verdicts": verdicts}
            state["last"] = {"case": case, "verdicts": verdicts}
            raise Falsified(verdicts)

    test = given(strat)(body)
    test = settings(
        max_examples=n,
        database=None,
        deadline=None,
        derandomize=False,
        report_multiple_bugs=False,
        print_blob=False,
        suppress_health_check=list(HealthCheck),
        phases=[Phase.generate, Phase.shrink],
        verbosity=hypothesis.Verbosity.quiet,
    )(test)
    test = hypothesis.seed(seed * 1000 + shard)(test)
    try:
        test()
    except Falsified:
        judge.rec.shrinking = False
        return state.get("last") or state["best"]
    except env.HarnessError:
        raise
    except BaseException as exc:  # noqa: BLE001 (Flaky, hypothesis internal errors)
        judge.rec.shrinking = False
        if isinstance(exc, (KeyboardInterrupt, SystemExit)):
            raise
        if state["best"] is not None:
            # a failure was observed but hypothesis could not replay it: re-run it ourselves
            for _ in range(10):
                verdicts = judge(state["best"]["case"])
                if verdicts:
                    return {"case": state["best"]["case"], "verdicts": verdicts}
            # The oracle judged a real execution of the library and found the property broken, yet the same case does
            # not fail again: the harness is a pure function of the case (virtual time, owned schedule), so what varies
            # is the code under test (object addresses, collection timing, hash order). The observation stands; the
            # replay file says that it is intermittent and keeps what was observed.
            return {**state["best"], "intermittent": True}
        raise env.HarnessError("hypothesis error: " + "".join(traceback.format_exception(exc))[-3000:]) from exc
    finally:
        judge.rec.shrinking = False
    return None


def enumeration_search(mod, judge: Judge, tier: str, shard: int, nshards: int):
    enum = getattr(mod, "enumerate_cases", None)
    if enum is None:
        return None, False
    it = enum(tier)
    if it is None:
        return None, False
    complete = True
    for i, case in enumerate(it):
        if i % nshards != shard:
            continue
        verdicts = judge(case)
        if verdicts:
            return {"case": case, "verdicts": verdicts}, False
    return None, complete


def worker(args):
    pid, tier, seed, shard, nshards = args
    try:
        env.bootstrap()
        mod = importlib.import_module(f"hv.props.{pid.lower()}")
        rec = Recorder()
        judge = Judge(mod, rec)
        t0 = time.monotonic()
        found, exhaustive = enumeration_search(mod, judge, tier, shard, nshards)
        t1 = time.monotonic()
        if found is None:
            found = hypothesis_search(mod, judge, tier, seed, shard, nshards)
        if found is None and hasattr(mod, "extra_search"):
            found = mod.extra_search(judge, tier, seed, shard, nshards)
        rec.extra["enumeration_wall_s"] = round(t1 - t0, 2)
        return {"rec": rec.dump(), "found": found, "exhaustive": exhaustive, "error": None}
    except env.HarnessError as exc:
        return {"rec": None, "found": None, "exhaustive": False, "error": str(exc)}
    except BaseException as exc:  # noqa: BLE001
        return {
            "rec": None,
            "found": None,
            "exhaustive": False,
            "error": "".join(traceback.format_exception(exc))[-4000:],
        }


def corpus_cases(pid: str):
    d = os.path.join(env.VERIF, "corpus", pid)
    if not os.path.isdir(d):
        return []
    out = []
    for name in sorted(os.listdir(d)):
        if name.endswith(".json"):
            with open(os.path.join(d, name)) as f:
                doc = json.load(f)
            out.append((name, doc["case"] if isinstance(doc, dict) and "case" in doc else doc))
    return out


def write_replay(pid: str, found: dict, seed: int, tier: str) -> str:
    d = os.path.join(env.VERIF, "replays")
    os.makedirs(d, exist_ok=True)
    path = os.path.join(d, f"{pid}-{case_hash(found['case']):016x}.json")
    with open(path, "w") as f:
        json.dump(
            {
                "property": pid,
                "verdicts": found["verdicts"],
                **(
                    {"intermittent": "observed in the run that wrote this file, not reproduced by 10 immediate re-runs of the same case; "
                     "--replay repeats the case up to 25 times"}
                    if found.get("intermittent")
                    else {}
                ),
                "case": found["case"],
                "seed": seed,
                "tier": tier,
            },
            f,
            indent=1,
            default=repr,
        )
        f.write("\n")
    return path


def main(argv=None) -> int:
    import argparse

    ap = argparse.ArgumentParser(prog="check")
    ap.add_argument("--property", required=True)
    ap.add_argument("--tier", default=os.environ.get("VERIF_TIER", "quick"), choices=["quick", "thorough"])
    ap.add_argument("--replay")
    ap.add_argument("--jobs", type=int, default=None)
    a = ap.parse_args(argv)
    pid = a.property.upper()
    seed = env.seed()
    t0 = time.monotonic()
    try:
        env.bootstrap()
        mod = importlib.import_module(f"hv.props.{pid.lower()}")
    except env.HarnessError as exc:
        print(f"HARNESS-ERROR property={pid}: {exc}", file=sys.stderr)
        return env.HARNESS_ERROR
    except BaseException as exc:  # noqa: BLE001
        print(f"HARNESS-ERROR property={pid}: {''.join(traceback.format_exception(exc))}", file=sys.stderr)
        return env.HARNESS_ERROR

    if a.replay:
        with open(a.replay) as f:
            doc = json.load(f)
        case = doc["case"] if isinstance(doc, dict) and "case" in doc else doc
        rec = Recorder()
        try:
            verdicts = Judge(mod, rec)(case)
            for _ in range(24 if isinstance(doc, dict) and doc.get("intermittent") else 0):
                if verdicts:
                    break
                verdicts = Judge(mod, rec)(case)
        except env.HarnessError as exc:
            print(f"HARNESS-ERROR property={pid}: {exc}", file=sys.stderr)
            return env.HARNESS_ERROR
        for k, n in rec.known_seen.items():
            print(f"KNOWN-FINDING: property={pid} {k}")
        if verdicts:
            for v in verdicts:
                print(f"  {v['sig']}: {str(v['detail'])[:600]}")
            print(f"VIOLATION property={pid} replay={os.path.abspath(a.replay)}")
            return 1
        print(f"OK property={pid} replay held")
        return 0

    rec = Recorder()
    judge = Judge(mod, rec)
    found = None
    exhaustive = False
    error = None
    try:
        # 1. seconds-long regression tier: committed corpus first
        ncorpus = 0
        for name, case in corpus_cases(pid):
            ncorpus += 1
            verdicts = judge(case)
            if verdicts and found is None:
                found = {"case": case, "verdicts": verdicts, "corpus": name}
        rec.extra["corpus_cases_replayed"] = ncorpus
        # 2./3. enumeration and generation, sharded in thorough
        if found is None:
            nshards = mod.budget(a.tier).get("shards", 1)
            if a.jobs:
                nshards = a.jobs
            if nshards <= 1:
                r = worker((pid, a.tier, seed, 0, 1))
                results = [r]
            else:
                import multiprocessing as mp

                with mp.get_context("spawn").Pool(min(nshards, os.cpu_count() or 1)) as pool:
                    results = pool.map(worker, [(pid, a.tier, seed, i, nshards) for i in range(nshards)])
            exhaustive = all(r["exhaustive"] for r in results)
            for r in results:
                if r["error"]:
                    error = r["error"]
                if r["rec"]:
                    rec.merge(r["rec"])
                if r["found"] and found is None:
                    found = r["found"]
    except env.HarnessError as exc:
        error = str(exc)
    wall = time.monotonic() - t0
    if error:
        print(f"HARNESS-ERROR property={pid}: {error}", file=sys.stderr)
        return env.HARNESS_ERROR

    known = Known(pid)
    for e in known.entries:
        n = rec.known_seen.get(e["id"], 0)
        seen = f"observed {n}x in this run" if n else "listed; not reached by this run's cases"
        print(f"KNOWN-FINDING: property={pid} {e['id']}: {e['symptom']} ({seen})")
    low = [
        k
        for k in getattr(mod, "REQUIRED_CLASSES", [])
        if rec.classes.get(k, 0) < 0.02 * max(rec.evaluations, 1)
    ]
    if low:
        print(f"WARNING property={pid}: generator classes below 2%: {low}", file=sys.stderr)
    extra = {}
    if hasattr(mod, "evidence_extra"):
        extra = mod.evidence_extra(a.tier) or {}
    path = write_evidence(
        pid,
        a.tier,
        seed,
        mod.LEVEL,
        rec,
        mod.RULE,
        list(mod.ASSUMPTIONS),
        wall,
        1 if found else 0,
        exhaustive and getattr(mod, "EXHAUSTIVE_MEANS", None) is not None,
        {**extra, **({"exhaustive_scope": mod.EXHAUSTIVE_MEANS} if exhaustive and getattr(mod, "EXHAUSTIVE_MEANS", None) else {})},
    )
    if found:
        rp = write_replay(pid, found, seed, a.tier)
        for v in found["verdicts"][:5]:
            print(f"  {v['sig']}: {str(v['detail'])[:800]}")
        if found.get("intermittent"):
            print("  (intermittent: observed once, not reproduced by 10 immediate re-runs of the same case)")
        print(f"VIOLATION property={pid} replay={rp}")
        return 1
    print(
        f"OK property={pid} tier={a.tier} seed={seed} evaluations={rec.evaluations} "
        f"distinct_nontrivial={len(rec.nontrivial)} wall={wall:.1f}s evidence={path}"
    )
    return 0


if __name__ == "__main__":
    sys.exit(main())
