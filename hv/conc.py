"""Concurrent scope programs shared by C02, C06, C07: strategies and crash-point enumeration."""

from __future__ import annotations

from hypothesis import strategies as st

from hv import progs as P


def task_body(depth: int):
    """body of a spawned task: steps, blocking on a gate, failing, spawning grandchildren"""
    sleep = st.builds(lambda t: {"k": "sleep", "t": t}, st.sampled_from([0.25, 0.5, 1, 2, 3]))
    wait = st.builds(lambda g: {"k": "wait", "gate": g}, st.integers(0, 3))
    simple = st.one_of(sleep, sleep, wait, st.just({"k": "yield"}), st.just({"k": "probe", "lookups": [], "fp": True}))
    fail = st.builds(lambda e: {"k": "raise", "exc": e}, st.sampled_from(["Exception", "ExcSubclass", "FalsyExc", "StrRaisesExc", "FrozenExc", "EmptyExc"]))
    ops = [simple, simple]
    if depth > 0:
        # cleanup code of a spawned task that spawns a follow-up task (runs also while the group is shutting down)
        follow_up = st.builds(lambda b: {"k": "spawn", "via": "ctx", "body": b}, st.lists(sleep, min_size=1, max_size=2))
        ops.append(st.builds(lambda b, f: {"k": "try_finally", "body": b, "final": [f]}, st.lists(simple, min_size=1, max_size=2), follow_up))
        ops.append(st.builds(lambda b: {"k": "spawn", "via": "ctx", "body": b}, st.deferred(lambda: task_body(depth - 1))))
        ops.append(
            st.builds(
                lambda s, b: {"k": "updated", "state": s, "body": b},
                st.lists(P.sv_strategy(), min_size=1, max_size=2),
                st.deferred(lambda: task_body(depth - 1)),
            )
        )
        # a (sync) scope entered and left by the spawned task itself - possibly after the scope it inherited has completed
        ops.append(
            st.builds(
                lambda s, b: {"k": "scope", "mode": "sync", "name": "t", "state": s, "disp": None, "body": b},
                st.lists(P.sv_strategy(), min_size=0, max_size=1),
                st.lists(simple, min_size=1, max_size=2),
            )
        )
    return st.builds(
        lambda body, end: body + ([end] if end else []),
        st.lists(st.one_of(*ops), min_size=1, max_size=3),
        st.one_of(st.none(), st.none(), fail),
    )


def fault_disp():
    times = st.sampled_from([0.25, 0.5, 1.5])
    beh = st.one_of(
        st.just({"b": "ok"}),
        st.just({"b": "ok"}),
        st.just({"b": "raise"}),
        st.builds(lambda t: {"b": "suspend_ok", "t": t}, times),
        st.builds(lambda t: {"b": "suspend_raise", "t": t}, times),
        st.builds(lambda t: {"b": "suspend_ok", "t": t, "absorb": True}, times),
    )
    # entering may start a background task of the resource (blocked until released) - before / while other disposables enter
    enter_beh = st.one_of(
        beh, beh, beh, beh,
        st.builds(lambda g: {"b": "ok", "spawn": g}, st.integers(0, 3)),
        st.builds(lambda g, t: {"b": "suspend_ok", "t": t, "spawn": g}, st.integers(0, 3), times),
    )  # fmt: skip
    ys = st.one_of(st.none(), P.sv_strategy(), st.lists(P.sv_strategy(), min_size=1, max_size=2))
    # an exit that returns True ("handled") must not make the scope swallow anything
    exit_beh = st.one_of(beh, beh, beh, st.just({"b": "ok", "ret": True}), st.just({"b": "ok", "spawn_task": 0.5}))
    return st.builds(
        lambda e, y, x, a: {"enter": e, "yields": y, "exit": x, "as": a}, enter_beh, ys, exit_beh, st.sampled_from(["list", "list", "iter"])
    )


def program(disp_faults: bool = True, body_raises: bool = True, max_leaves: int = 6, top_spawn: bool = False):
    """{"body": [...], "releases": [[t, gate]]} - nested blocks, spawned tasks, raises"""
    svs = st.lists(P.sv_strategy(), min_size=0, max_size=3)
    names = st.sampled_from(["s", "outer", "inner"])
    probe = st.just({"k": "probe", "lookups": [], "fp": True})
    sleep = st.builds(lambda t: {"k": "sleep", "t": t}, st.sampled_from([0.25, 0.5, 1, 2]))
    spawn = st.builds(lambda v, b: {"k": "spawn", "via": v, "body": b}, st.sampled_from(["ctx", "ctx", "ctx", "asyncio"]), task_body(1))
    raise_ = st.builds(lambda e: {"k": "raise", "exc": e}, st.sampled_from(["Exception", "ExcSubclass", "BaseExc", "FalsyExc", "GenExit", "OwnCancelled", "StrRaisesExc", "FrozenExc", "EmptyExc"]))
    leaf_ops = st.one_of(probe, sleep, spawn, spawn, st.just({"k": "yield"}))
    # (without faults:) disposables that always succeed, some of which start a background task of their own while entering
    spawning = st.builds(lambda d, g: {**d, "enter": {**d["enter"], "spawn": g}}, P.simple_disp_strategy(), st.integers(0, 3))
    disp = fault_disp() if disp_faults else st.one_of(P.simple_disp_strategy(), P.simple_disp_strategy(), spawning)

    def blocks(children):
        body = st.builds(
            lambda ops, end: ops + ([end] if end else []),
            st.lists(st.one_of(leaf_ops, children), min_size=1, max_size=4),
            st.one_of(st.none(), st.none(), st.none(), raise_) if body_raises else st.none(),
        )
        if body_raises:
            # a spawned task that fails EARLY and a body that fails (differently) a few steps later: the block must end with
            # the body's own exception whichever of the two the task group hears about first
            early = st.builds(
                lambda pre, e1, n, e2: [
                    {"k": "spawn", "via": "ctx", "body": [*([{"k": "yield"}] * pre), {"k": "raise", "exc": e1}]},
                    *([{"k": "yield"}] * n),
                    {"k": "raise", "exc": e2},
                ],
                st.integers(0, 1), st.sampled_from(["Exception", "ExcSubclass"]), st.integers(0, 3), st.sampled_from(["Exception", "ExcSubclass", "BaseExc"]),
            )  # fmt: skip
            body = st.one_of(body, body, body, body, early)
        # "prep": the scope OBJECT is created one or two blocks further out (`s = ctx.scope(...)` in one place, `async with s:`
        # in another) - where it was created decides nothing about whose tasks are whose
        a_scope = st.builds(
            lambda n, s, d, dobj, b, prep: {"k": "scope", "mode": "async", "name": n, "state": s, "disp": d, "disp_obj": dobj, "body": b, "prep": prep},
            names, svs, st.one_of(st.none(), st.lists(disp, min_size=1, max_size=3)), st.booleans(), body, st.sampled_from([0, 0, 0, 0, 1, 2]),
        )  # fmt: skip
        s_scope = st.builds(lambda n, s, b: {"k": "scope", "mode": "sync", "name": n, "state": s, "disp": None, "body": b}, names, svs, body)
        upd = st.builds(lambda s, b: {"k": "updated", "state": s, "body": b}, svs, body)
        return st.one_of(a_scope, a_scope, s_scope, upd)

    block = st.recursive(blocks(leaf_ops), blocks, max_leaves=max_leaves)
    # the outermost scope may have a disposable of its own that starts a background task while it is being entered
    root_disp = st.one_of(st.none(), st.none(), st.none(), st.builds(lambda g: [{"enter": {"b": "ok", "spawn": g}, "yields": None, "exit": {"b": "ok"}, "as": "list"}], st.integers(0, 3)))
    outer = st.builds(
        lambda s, inner, tail, rd: {"k": "scope", "mode": "async", "name": "root", "state": s, "disp": rd, "disp_obj": False, "body": [*inner, *tail]},
        st.lists(P.sv_strategy(), min_size=1, max_size=3),
        st.lists(block, min_size=1, max_size=2),
        st.lists(leaf_ops, max_size=1),
        root_disp,
    )
    releases = st.lists(st.tuples(st.sampled_from([0.5, 1, 2, 4, 6]), st.integers(0, 3)).map(list), max_size=4)
    pre = st.lists(spawn, max_size=1) if top_spawn else st.just([])
    # a spawn AFTER the outermost scope has been left: outside any scope again, it must give a detached running task
    post = st.lists(st.builds(lambda b: {"k": "spawn", "via": "ctx", "body": b}, st.lists(sleep, min_size=1, max_size=2)), max_size=1) if top_spawn else st.just([])
    return st.builds(lambda p, o, r, q: {"body": [*p, o, {"k": "probe", "lookups": [], "fp": True}, *q], "releases": r}, pre, outer, releases, post)


def resource_program():
    """a scope whose disposable is a resource that the body's spawned task uses until the resource is closed: the task ends
    when the disposable is exited (nobody else releases it) - leaving the block terminates because disposables are exited
    before the block waits for its tasks"""
    end = st.sampled_from([None, None, {"k": "raise", "exc": "Exception"}])
    return st.builds(
        lambda n_tasks, pause, e, twice: {
            "body": [
                {"k": "scope", "mode": "async", "name": "root", "state": [{"type": "A", "v": 1}], "disp": None, "disp_obj": False, "body": [
                    {"k": "scope", "mode": "async", "name": "s", "state": [], "disp_obj": False,
                     "disp": [{"enter": {"b": "ok"}, "yields": None, "exit": {"b": "ok", "release": 9}, "as": "list"},
                              *([{"enter": {"b": "ok"}, "yields": None, "exit": {"b": "suspend_ok", "t": 0.25}, "as": "list"}] if twice else [])],
                     "body": [*[{"k": "spawn", "via": "ctx", "body": [{"k": "wait", "gate": 9}]} for _ in range(n_tasks)], *([{"k": "yield"}] * pause), *([e] if e else [])]},
                    {"k": "probe", "lookups": [], "fp": True},
                ]},
                {"k": "probe", "lookups": [], "fp": True},
            ],
            "releases": [],
        },
        st.integers(1, 2), st.integers(0, 2), end, st.booleans(),
    )  # fmt: skip


def failing_body_program():
    """a block whose body spawns tasks that never finish on their own and then fails with one of EVERY kind of exception
    the family knows (unrenderable, frozen, message-less, falsy, not an Exception, its own CancelledError ...): the tasks are
    cancelled and awaited before the block is left, whatever the exception looks like"""
    from hv.progs import EXC

    return st.builds(
        lambda exc, n_tasks, pause, mode, via: {
            "body": [
                {"k": "scope", "mode": "async", "name": "root", "state": [{"type": "A", "v": 1}], "disp": None, "disp_obj": False, "body": [
                    {"k": "scope", "mode": "async", "name": "s", "state": [{"type": "B", "v": 2}], "disp_obj": False,
                     "disp": None if mode == 0 else [{"enter": {"b": "ok"}, "yields": None, "exit": {"b": "suspend_ok", "t": 0.25} if mode == 1 else {"b": "ok", "spawn_task": 0.5}, "as": "list"}],
                     "body": [*[{"k": "spawn", "via": via, "body": [{"k": "wait", "gate": 7}]} for _ in range(n_tasks)], *([{"k": "yield"}] * pause), {"k": "raise", "exc": exc}]},
                    {"k": "probe", "lookups": [], "fp": True},
                ]},
                {"k": "probe", "lookups": [], "fp": True},
            ],
            "releases": [],
        },
        st.sampled_from(sorted(EXC)), st.integers(1, 2), st.integers(0, 2), st.integers(0, 2), st.sampled_from(["ctx", "ctx", "asyncio"]),
    )  # fmt: skip


def absorbing_disposable_program():
    """a scope with one or two disposables whose set-up / cleanup suspends and shrugs an interruption off, and spawned tasks:
    a cancellation that arrives while the scope is entering or leaving is still the scope's (and ends its tasks)"""
    ab = st.sampled_from([{"b": "suspend_ok", "t": 0.5, "absorb": True}, {"b": "suspend_ok", "t": 0.5, "absorb": True}, {"b": "ok"}, {"b": "suspend_ok", "t": 0.5}])
    return st.builds(
        lambda n, enters, exits, n_tasks, pause, e: {
            "body": [
                {"k": "scope", "mode": "async", "name": "s", "state": [], "disp_obj": False,
                 "disp": [{"enter": enters[j], "yields": None, "exit": exits[j], "as": "list"} for j in range(n)],
                 "body": [*[{"k": "spawn", "via": "ctx", "body": [{"k": "sleep", "t": 2}]} for _ in range(n_tasks)], *([{"k": "yield"}] * pause), *([e] if e else [])]},
                {"k": "probe", "lookups": [], "fp": True},
            ],
            "releases": [],
        },
        st.integers(1, 2), st.tuples(ab, ab), st.tuples(ab, ab), st.integers(0, 2), st.integers(0, 1), st.sampled_from([None, None, {"k": "raise", "exc": "Exception"}]),
    )  # fmt: skip


def handler_program():
    """a block (with spawned tasks) entered inside an `except` clause of the surrounding code and ended normally / by its own
    failure: it is left the way ITS body ended - tasks awaited after a normal end, nothing of the handled exception re-raised"""
    return st.builds(
        lambda handled, mode, n_tasks, pause, end, nested: {
            "body": [
                {"k": "scope", "mode": "async", "name": "root", "state": [{"type": "A", "v": 1}], "disp": None, "disp_obj": False, "body": [
                    {"k": "scope", "mode": mode, "name": "cleanup", "state": [{"type": "B", "v": 2}], "disp": None, "disp_obj": False, "in_handler": handled,
                     "body": [*[{"k": "spawn", "via": "ctx", "body": [{"k": "sleep", "t": 0.5}]} for _ in range(n_tasks)], *([{"k": "yield"}] * pause),
                              *([{"k": "scope", "mode": "async", "name": "inner", "state": [], "disp": None, "disp_obj": False, "body": [{"k": "spawn", "via": "ctx", "body": [{"k": "sleep", "t": 0.25}]}]}] if nested else []),
                              *([end] if end else [])]},
                    {"k": "probe", "lookups": [], "fp": True},
                ]},
                {"k": "probe", "lookups": [], "fp": True},
            ],
            "releases": [],
        },
        st.sampled_from(["Exception", "OwnCancelled", "BaseExc", "FalsyExc"]), st.sampled_from(["async", "async", "sync"]), st.integers(0, 2), st.integers(0, 1),
        st.sampled_from([None, None, {"k": "raise", "exc": "Exception"}]), st.booleans(),
    )  # fmt: skip


def prepared_program():
    """three nested async scopes where the innermost scope OBJECT was created further out (before the middle one was entered);
    after the innermost block has been left the middle block spawns: that task is the middle scope's"""
    def scope(name, body, prep=0):
        return {"k": "scope", "mode": "async", "name": name, "state": [], "disp": None, "disp_obj": False, "body": body, "prep": prep}

    return st.builds(
        lambda prep, g, pause, e: {
            "body": [
                scope("root", [
                    scope("outer", [
                        scope("middle", [
                            scope("inner", [{"k": "yield"}], prep=prep),
                            {"k": "spawn", "via": "ctx", "body": [{"k": "wait", "gate": g}]},
                            *([{"k": "yield"}] * pause),
                            *([e] if e else []),
                        ]),
                        {"k": "probe", "lookups": [], "fp": True},
                        {"k": "sleep", "t": 0.5},
                    ]),
                ]),
                {"k": "probe", "lookups": [], "fp": True},
            ],
            "releases": [[4, g]],
        },
        st.sampled_from([1, 2, 2]), st.integers(0, 3), st.integers(0, 2), st.sampled_from([None, None, {"k": "raise", "exc": "Exception"}]),
    )  # fmt: skip


def all_gates(ops, acc=None):
    acc = set() if acc is None else acc
    for _, op in P.walk_blocks(ops):
        if op["k"] == "wait":
            acc.add(op["gate"])
        for d in op.get("disp") or []:
            for ph in ("enter", "exit"):
                if "gate" in d[ph]:
                    acc.add(d[ph]["gate"])
                if d[ph].get("spawn") is not None:
                    acc.add(d[ph]["spawn"])
    return acc


def release_plan(prog, complete: bool):
    """releases as (time, gate); with complete=True every gate is eventually released (so a hang can only be the library's)"""
    rel = [(t, g) for t, g in prog.get("releases", [])]
    if complete:
        have = {g for _, g in rel}
        # a gate that a disposable releases when it is exited is released by nobody else
        for _, op in P.walk_blocks(prog["body"]):
            for d in op.get("disp") or []:
                if d["exit"].get("release") is not None:
                    have.add(d["exit"]["release"])
        for g in sorted(all_gates(prog["body"]) - have):
            rel.append((8.0, g))
    return rel


def has_raise(ops) -> bool:
    return any(op["k"] == "raise" for _, op in P.walk_blocks(ops))
