"""Scope programs: plain-data AST, interpreter against real haiway (event log), shared by C01 C02 C06 C07 C08 C10 C19.

Block ::= {"k":"scope","mode":"async"|"sync","name":str,"state":[SV],"disp":[Disp]|null,"disp_obj":bool,
           "logger":bool,"trace":str|null,"completion":"sync"|"async"|null,"body":[Op]}
        | {"k":"updated","state":[SV],"body":[Op]}
Op    ::= Block | {"k":"probe","lookups":[[type_name, with_default]]} | {"k":"yield"} | {"k":"sleep","t":x}
        | {"k":"wait","gate":g} | {"k":"raise","exc":"Exception"|"ExcSubclass"|"BaseExc"}
        | {"k":"spawn","via":"ctx"|"asyncio","body":[Op]}
        | {"k":"record","type":name,"value":int,"merge":"replace"|"sum"|"concat"|"raising"}
        | {"k":"log","level":..,"fmt":[seg],"exc":bool}
SV    ::= {"type": family type name, "v": int}
Disp  ::= {"enter": Beh, "yields": null | SV | [SV, ...], "exit": Beh}
Beh   ::= {"b":"ok"|"raise"|"suspend_ok"|"suspend_raise", "t": virtual seconds (for suspend)}
"""


import asyncio
import logging
import re
from collections.abc import Sequence

from haiway import Disposables, MissingContext, MissingState, State, ctx

from hv import vloop


# ------------------------------------------------------------------------------------------- families
class A(State):
    v: int = 0


class B(State):
    v: int = 0
    w: str = ""


class R(State):  # required attribute: cannot be default-constructed
    v: int


class A2(A):  # subclass: "exactly that type"
    pass


class G[T](State):
    v: T


class F(State):  # unusual but legal: instances are falsy (truthiness must never stand in for presence)
    v: int = 0

    def __bool__(self) -> bool:
        return False

    def __len__(self) -> int:
        return 0


from haiway import Missing as _Missing  # noqa: E402


class M(State):  # no class-level default, yet constructible without arguments: the annotation admits Missing
    v: int | _Missing


class U(State):  # required attribute of a union type: its validation failure is reported as an exception GROUP
    v: int | str


def _twin() -> type:
    class Tw(State):  # made by a factory: every call gives a DISTINCT type with the same module and qualified name
        v: int = 0

    return Tw


T1, T2 = _twin(), _twin()
# two specialisations whose arguments have the same __name__ (haiway spells both "G[Sequence]"): still different types
GQ1, GQ2 = G[Sequence[int]], G[Sequence[str]]

FAMILY: dict[str, type] = {"A": A, "B": B, "R": R, "A2": A2, "G[int]": G[int], "G[str]": G[str], "G": G, "F": F, "U": U, "M": M, "T1": T1, "T2": T2, "GQ1": GQ1, "GQ2": GQ2}  # fmt: skip
DEFAULTABLE = {"A", "B", "A2", "F", "M", "T1", "T2"}  # constructible without arguments


def family_name(T: type) -> str:
    for n, t in FAMILY.items():
        if t is T:
            return n
    return T.__name__


def make_state(sv) -> State:
    name = sv["type"]
    T = FAMILY[name]
    if name == "G[str]":
        return T(v=str(sv["v"]))
    if name == "M" and sv["v"] is None:
        return T()  # the attribute is left MISSING: still a complete instance, never a "partial update"
    if name == "GQ1":
        return T(v=(sv["v"],))
    if name == "GQ2":
        return T(v=(str(sv["v"]),))
    return T(v=sv["v"])


def sentinels() -> dict[str, State]:
    return {n: make_state({"type": n, "v": -999}) for n in FAMILY}


class MA(State):
    ids: Sequence[int]


class MB(State):
    ids: Sequence[int]


class MC(State):
    ids: Sequence[int]


class MF(State):  # a metric whose instances are falsy: presence must not be decided by truthiness
    ids: Sequence[int]

    def __bool__(self) -> bool:
        return False


class MA2(MA):  # metrics are kept per EXACT type: a subclass is a different metric
    pass


METRICS = {"MA": MA, "MB": MB, "MC": MC, "MF": MF, "MA2": MA2}


class MergeErr(Exception):
    pass


def _concat(lhs, rhs):
    return type(rhs)(ids=(*lhs.ids, *rhs.ids))


def _sum(lhs, rhs):
    return type(rhs)(ids=(sum(lhs.ids) + sum(rhs.ids),))


def _raising(lhs, rhs):
    raise MergeErr("merge")


MERGES = {"replace": lambda lhs, rhs: rhs, "concat": _concat, "sum": _sum, "raising": _raising}


def merged_view(current, received):
    """merge used for ScopeMetrics.metrics(merge=...): order-revealing concatenation"""
    from haiway import MISSING

    if current is MISSING:
        return received
    return type(received)(ids=(*current.ids, *received.ids))


def merged_view_rev(current, received):
    """a SECOND merge for the same view, asked for right after the first one: prepends instead of appending"""
    from haiway import MISSING

    if current is MISSING:
        return received
    return type(received)(ids=(*received.ids, *current.ids))


class LogErr(Exception):
    pass


class _StrRaises:
    def __str__(self):
        raise RuntimeError("__str__ of a log argument raised")

    __repr__ = __str__


def render_log(segments, token, mapping=False):
    """segments: [["lit", text] | ["s", value] | ["d", int] | ["r", value]] -> (format string, args); format and
    arguments agree by construction; the token makes the line findable among the library's own lines. With
    mapping=True the arguments are given in logging's other %-style: named keys and ONE mapping argument."""
    fmt, args = [token], []
    named = {}
    has_args = any(kind != "lit" for kind, _ in segments)  # logging applies % only when arguments are given
    for kind, val in segments:
        if kind == "lit":
            fmt.append(str(val).replace("%", "%%") if has_args else str(val))
            continue
        conv = {"s": "s", "d": "d"}.get(kind, "r")
        val = int(val) if kind == "d" else val
        if mapping:
            key = f"a{len(named)}"
            named[key] = val
            fmt.append(f"%({key}){conv}")
        else:
            fmt.append("%" + conv)
            args.append(val)
    if mapping and named:
        return " ".join(fmt), (named,)
    return " ".join(fmt), tuple(args)


def log_text(fmt, args):
    """what logging makes of (format, args): a single non-empty mapping argument is used as the mapping"""
    if not args:
        return fmt
    if len(args) == 1 and isinstance(args[0], dict) and args[0]:
        return fmt % args[0]
    return fmt % args


class Capture(logging.Handler):
    def __init__(self, sink):
        super().__init__(level=logging.DEBUG)
        self.sink = sink

    def emit(self, record):
        self.sink.append(record)


def record_text(record) -> str:
    try:
        return record.getMessage()
    except Exception:  # noqa: BLE001 - a record whose arguments do not fit its format: take the raw message
        return str(record.msg)


_HEX_ID = re.compile(r"[0-9a-fA-F]{32}|[0-9a-fA-F]{8}-[0-9a-fA-F]{4}-[0-9a-fA-F]{4}-[0-9a-fA-F]{4}-[0-9a-fA-F]{12}")
_NUMBER = re.compile(r"\d+(?:[.,]\d+)?(?:e[-+]?\d+)?")
_SCOPE_LOG: dict = {}


def _shape(text: str, name: str) -> str:
    text = _HEX_ID.sub("<id>", text)
    text = re.sub(rf"(?<![A-Za-z0-9_]){re.escape(name)}(?![A-Za-z0-9_])", "<name>", text)
    return _NUMBER.sub("<n>", text)


def scope_log_shapes():
    """What does THIS library log when a scope is entered and when it is left? Learned once per process from a
    calibration scope (wording, brackets and number formats of log lines are nobody's contract): returns
    {"enter": shape, "exit": shape} with identifiers, the scope's name and numbers abstracted away - or None when the two
    cannot be told apart / nothing mentioning the scope's name is logged (then log-based observations are skipped)."""
    if "v" in _SCOPE_LOG:
        return _SCOPE_LOG["v"]
    from haiway import ctx

    name = "hvcalibration"
    sink: list = []
    handler = Capture(sink)
    root = logging.getLogger()
    old = root.level
    root.setLevel(logging.DEBUG)
    root.addHandler(handler)
    try:

        async def main():
            async with ctx.scope(name):
                await asyncio.sleep(0)

        # in a thread of its own: never touches the caller's (possibly running) event loop
        import threading

        th = threading.Thread(target=lambda: asyncio.run(main()), daemon=True)
        th.start()
        th.join(10)
    except Exception:  # noqa: BLE001 - calibration only
        sink.clear()
    finally:
        root.removeHandler(handler)
        root.setLevel(old)
    lines = [t for t in map(record_text, sink) if "<name>" in _shape(t, name)]
    v = None
    if len(lines) >= 2:
        enter, exit_ = _shape(lines[0], name), _shape(lines[-1], name)
        if enter != exit_:
            v = {"enter": enter, "exit": exit_}
    _SCOPE_LOG["v"] = v
    return v


def scope_log_lines(records, name: str, which: str):
    """the captured records that are the enter / exit line of a scope called `name` (None: not observable)"""
    shapes = scope_log_shapes()
    if shapes is None:
        return None
    return [r for r in records if _shape(record_text(r), name) == shapes[which]]


class ProgErr(Exception):
    pass


class ProgErrSub(ProgErr):
    pass


class ProgBase(BaseException):
    pass


class DispErr(Exception):
    pass


class DispBase(BaseException):
    """a disposable's own failure that is not an Exception (its internal worker was cancelled / a KeyboardInterrupt-like
    signal of the resource): still that disposable's cleanup or entering error"""


class ProgFalsy(ProgErr):
    """an exception whose instances are falsy (e.g. an error collection that happens to be empty): still an exception"""

    def __len__(self):
        return 0


class ProgStrRaises(ProgErr):
    """an exception that cannot be rendered (its message is computed and the computation fails): still the body's exception"""

    def __str__(self):
        raise RuntimeError("this exception cannot be rendered")


class ProgFrozen(ProgErr):
    """an exception whose instances reject new attributes (a frozen dataclass exception, __slots__): nothing can be attached"""

    def __setattr__(self, name, value):
        raise AttributeError(f"cannot assign to field {name!r}")


class ProgEmpty(ProgErr):
    """an exception without a message: str(exc) == "" """

    def __init__(self, *_):
        super().__init__()


# "OwnCancelled": the body itself ends with a CancelledError although nobody asked its task to cancel (it awaited something
# that was cancelled, or raises one to abort): a body outcome like any other failure
EXC = {"Exception": ProgErr, "ExcSubclass": ProgErrSub, "BaseExc": ProgBase, "FalsyExc": ProgFalsy, "GenExit": GeneratorExit, "OwnCancelled": asyncio.CancelledError,
       "StrRaisesExc": ProgStrRaises, "FrozenExc": ProgFrozen, "EmptyExc": ProgEmpty}  # fmt: skip


_UNSET = "unset"


def _grey(modname, clsname):
    try:
        mod = __import__(modname, fromlist=[clsname])
        var = getattr(getattr(mod, clsname), "_context")
        var.get(None)
        return var
    except Exception:  # noqa: BLE001 - private name gone: degrade, never fail
        return None


class Run:
    """One execution of a program inside the victim task. All observations go to self.log."""

    def __init__(self, prog: dict, loop) -> None:
        self.prog = prog
        self.loop = loop
        self.log: list = []
        self.last_metric: dict = {}  # metric type name -> (record id, instance) of the latest freshly made record
        self.instances: dict = {}  # key -> State instance; key = (path, "s", i) | (path, "d", j, i)
        self.labels: dict = {}  # id(instance) -> key
        self.sent = sentinels()
        for n, s in self.sent.items():
            self.labels[id(s)] = ("sentinel", n)
        self.tasks: dict = {}  # spawn path -> Task
        self.owner_of: dict = {}  # spawn path -> owning async scope path (or None)
        self.gates: dict = {}
        self.metrics_var = _grey("haiway.context.metrics", "MetricsContext")
        self.group_var = _grey("haiway.context.tasks", "TaskGroupContext")
        self.metric_values: dict = {}
        self.handler = None
        self.loggers: dict = {}
        self.records: list = []
        self.completions: list = []
        self.prepared: dict = {}

    # ------------------------------------------------------------------ helpers
    def ev(self, _ev, path, **kw):
        self.log.append({"ev": _ev, "path": path, "t": self.loop.time(), "it": self.loop.iteration, **kw})

    def inst(self, key, sv):
        if sv.get("share") is not None:
            # ONE instance (e.g. a module-level constant) supplied by several blocks: its label does not depend on the block
            key = ("shared", sv["type"], sv["v"], sv["share"])
        if key not in self.instances:
            s = make_state(sv)
            self.instances[key] = s
            self.labels[id(s)] = key
        return self.instances[key]

    def label(self, obj):
        lbl = self.labels.get(id(obj))
        return lbl if lbl is not None else ("unknown", family_name(type(obj)), repr(obj))

    def gate(self, g):
        """awaitable that completes when gate g is released; every waiter gets its own future (an Event), so that
        cancelling one waiter never disturbs another one blocked on the same gate"""
        if g not in self.gates:
            self.gates[g] = asyncio.Event()
        return self.gates[g].wait()

    def release(self, g):
        if g not in self.gates:
            self.gates[g] = asyncio.Event()
        self.gates[g].set()

    def lookup(self, name, with_default):
        """-> ("val", label, obj) | ("MissingContext",) | ("MissingState",) | ("raised", repr)"""
        T = FAMILY[name]
        try:
            v = ctx.state(T, default=self.sent[name]) if with_default else ctx.state(T)
            return ("val", self.label(v), v)
        except MissingContext:
            return ("MissingContext",)
        except MissingState:
            return ("MissingState",)
        except Exception as exc:  # noqa: BLE001
            return ("raised", repr(exc))

    def fingerprint(self):
        """side-effect free view of the current context: state per family type (sentinel defaults),
        metrics scope and task group identities (grey-box; None if the private names are gone)"""
        st = {}
        for n in FAMILY:
            r = self.lookup(n, True)
            st[n] = r[1] if r[0] == "val" else r[0]
        # "unset" and "set to None" are different states of a context variable (the library tells "no scope" by LookupError)
        m = self.metrics_var.get(_UNSET) if self.metrics_var is not None else "n/a"
        g = self.group_var.get(_UNSET) if self.group_var is not None else "n/a"
        return {"state": st, "metrics": m if isinstance(m, str) else (None if m is None else id(m)), "group": g if isinstance(g, str) else (None if g is None else id(g))}

    # ------------------------------------------------------------------ interpreter
    async def ops(self, ops, path, owner, mscope=None):
        for i, op in enumerate(ops):
            await self.op(op, path + (i,), owner, mscope)

    def prepare(self, ops, path, depth=1):
        """construct (not enter) the scope objects that ask to be prepared `depth` blocks above their position:
        `s = ctx.scope(...)` evaluated in one place and entered later under other enclosing blocks"""
        for i, op in enumerate(ops):
            p = path + (i,)
            if op["k"] in ("scope", "updated"):
                if op["k"] == "scope" and op.get("prep") == depth and p not in self.prepared:
                    states = [self.inst((p, "s", j), sv) for j, sv in enumerate(op.get("state", []))]
                    self.prepared[p] = self.make_scope(op, p, states)
                    self.ev("prepared", p)
                if depth < 3:
                    self.prepare(op["body"], p, depth + 1)

    def make_scope(self, op, path, states):
        kw = self.scope_kwargs(op, path)
        if op.get("mode") == "async" and op.get("disp") is not None:
            doubles = [Double(self, path, j, d) for j, d in enumerate(op["disp"])]
            kw["disposables"] = Disposables(*doubles) if op.get("disp_obj") else doubles
        return ctx.scope(op["name"], *states, **kw)

    async def op(self, op, path, owner, mscope=None):  # noqa: C901, PLR0912
        k = op["k"]
        if k in ("scope", "updated"):
            if op.get("in_handler"):
                # the block is entered while the surrounding code is HANDLING an exception (a clean-up / compensation scope
                # inside an `except` clause): what is being handled out there is none of the block's business
                try:
                    raise EXC[op["in_handler"]](("handled outside", path))
                except BaseException:  # noqa: BLE001 - the handler is the point
                    await self.block(op, path, owner, mscope)
            else:
                await self.block(op, path, owner, mscope)
        elif k == "probe":
            res = [(n, d, self.lookup(n, d)[:2]) for n, d in op.get("lookups", [])]
            raw = [self.lookup(n, d) for n, d in []]
            del raw
            self.ev("probe", path, lookups=res, fp=self.fingerprint() if op.get("fp") else None)
        elif k == "yield":
            await asyncio.sleep(0)
        elif k == "gc":
            import gc

            gc.collect()
        elif k == "reseed":
            # the program puts the process-wide random generator into a known state (reproducible sampling, a worker that
            # seeds per request): nothing the library hands out as "fresh" or "unique" may depend on it
            import random

            random.seed(op["n"])
        elif k == "absorb_cancel":
            # the task absorbs a cancellation request here (clean-up code in `except CancelledError:` / `finally:` goes on
            # working): Task.cancelling() stays > 0 from now on, which is not a pending cancellation
            asyncio.current_task().cancel()
            try:
                await asyncio.sleep(0)
            except asyncio.CancelledError:
                pass
        elif k == "sleep":
            await asyncio.sleep(op["t"])
        elif k == "wait":
            await self.gate(op["gate"])
        elif k == "raise":
            e = EXC[op["exc"]](path)
            self.ev("raise", path, exc=e)
            raise e
        elif k == "spawn":
            self.spawn(op, path, owner, mscope)
        elif k == "record":
            self.record(op, path, mscope)
        elif k == "log":
            self.do_log(op, path, mscope)
        elif k == "try_finally":
            # user code with cleanup: the final ops run however the body ends (also on cancellation)
            try:
                await self.ops(op["body"], path + ("b",), owner, mscope)
            finally:
                try:
                    await self.ops(op["final"], path + ("f",), owner, mscope)
                except RuntimeError as exc:
                    # e.g. spawning into a task group that is shutting down is refused by asyncio
                    self.ev("final_refused", path, exc=exc)
        elif k == "check_cancellation":
            try:
                ctx.check_cancellation()
                self.ev("check", path, raised=False)
            except asyncio.CancelledError:
                self.ev("check", path, raised=True)
                raise
        else:
            raise ValueError(k)

    def spawn(self, op, path, owner, mscope=None):
        async def child():
            self.ev("task_start", path)
            try:
                await self.ops(op["body"], path + ("t",), owner, mscope)
                self.ev("task_end", path, how="return")
            except asyncio.CancelledError:
                self.ev("task_end", path, how="cancelled")
                raise
            except BaseException as exc:
                self.ev("task_end", path, how="failed", exc=exc)
                raise

        if op["via"] == "ctx":
            try:
                t = ctx.spawn(child)
            except BaseException as exc:
                self.ev("spawn_raised", path, owner=owner, exc=exc)
                raise
            self.owner_of[path] = owner
        else:
            t = self.loop.create_task(child())
            self.owner_of[path] = None
        self.tasks[path] = t
        t.add_done_callback(lambda _t, path=path: self.ev("task_done", path, cancelled=_t.cancelled()))
        self.ev("spawn", path, via=op["via"], owner=owner)

    def scope_kwargs(self, op, path):
        kw = {}
        if op.get("logger"):
            lg = logging.Logger(f"hv.{'.'.join(map(str, path))}")
            lg.propagate = False
            # "late": logging gets configured (level lowered) only after the scope is already running
            lg.setLevel(logging.WARNING if op.get("logger") == "late" else logging.DEBUG)
            if self.handler is not None:
                lg.addHandler(self.handler)

            def stamp(record, path=path):
                # a filter of THIS Logger object: a record carries the stamp iff it went through the very object that was
                # handed to the scope (a namesake obtained from the logging registry is another logger)
                record.hv_logger_path = path
                return True

            lg.addFilter(stamp)
            self.loggers[path] = lg
            kw["logger"] = lg
        if op.get("trace") is not None:
            kw["trace_id"] = op["trace"]  # also the empty string (counts as "not given")
        comp = op.get("completion")
        if comp == "sync":

            def completion(metrics, path=path):
                self.on_completion(path, metrics)

            kw["completion"] = completion
        elif comp == "async":

            async def acompletion(metrics, path=path):
                self.on_completion(path, metrics)

            kw["completion"] = acompletion
        return kw

    retain_metrics = True  # False: the harness keeps nothing of a completed scope alive (its objects may be freed and reused)

    def on_completion(self, path, metrics):
        self.completions.append((path, metrics if self.retain_metrics else None))
        info = {}
        try:
            info["read"] = {n: (lambda m: None if m is None else tuple(m.ids))(metrics.read(T)) for n, T in METRICS.items()}
            info["merged"] = {type(m).__name__: tuple(m.ids) for m in metrics.metrics(merge=merged_view)}
            # the same view asked for again with ANOTHER merge function: every request folds with the function it was given
            info["merged_rev"] = {type(m).__name__: tuple(m.ids) for m in metrics.metrics(merge=merged_view_rev)}
            info["ident"] = (metrics.trace_id, metrics.label, metrics.identifier)
            info["completed"] = metrics.is_completed
        except Exception as exc:  # noqa: BLE001
            info["error"] = repr(exc)
        self.ev("completion", path, metrics=metrics if self.retain_metrics else None, **info)

    async def block(self, op, path, owner, mscope=None):  # noqa: C901
        fp_before = self.fingerprint()
        self.ev("block_enter", path, fp=fp_before, kind=op["k"], mode=op.get("mode"))
        states = [self.inst((path, "s", i), sv) for i, sv in enumerate(op.get("state", []))]
        exc_seen = None
        try:
            if op["k"] == "updated":
                with ctx.updated(*states):
                    self.ev("body_start", path)
                    self.prepare(op["body"], path)
                    await self.ops(op["body"], path, owner, mscope)
                    self.ev("body_end", path)
            elif op["mode"] == "sync":
                cm = self.prepared.pop(path, None) or self.make_scope(op, path, states)
                with cm:
                    if op.get("logger") == "late":
                        self.loggers[path].setLevel(logging.DEBUG)
                        # Logger.setLevel only clears the isEnabledFor caches of loggers registered with the manager
                        self.loggers[path]._cache.clear()
                    self.ev("body_start", path)
                    self.prepare(op["body"], path)
                    await self.ops(op["body"], path, owner, path)
                    self.ev("body_end", path)
            else:
                cm = self.prepared.pop(path, None) or self.make_scope(op, path, states)
                async with cm:
                    if op.get("logger") == "late":
                        self.loggers[path].setLevel(logging.DEBUG)
                        # Logger.setLevel only clears the isEnabledFor caches of loggers registered with the manager
                        self.loggers[path]._cache.clear()
                    self.ev("body_start", path)
                    self.prepare(op["body"], path)
                    await self.ops(op["body"], path, path, path)
                    self.ev("body_end", path)
        except BaseException as exc:
            exc_seen = exc
            raise
        finally:
            owned = {p: self.tasks[p].done() for p, o in self.owner_of.items() if o == path} if op.get("mode") == "async" else {}
            self.ev("block_exit", path, fp=self.fingerprint(), exc=exc_seen, owned_done=owned, kind=op["k"], mode=op.get("mode"))

    # ------------------------------------------------------------------ metrics / logs (C10, C19)
    def record(self, op, path, mscope):
        T = METRICS[op["type"]]
        prev = self.last_metric.get(op["type"]) if op.get("reuse") else None
        if prev is not None:
            # the very same instance recorded again (a constant such as `ONE = Count(1)`): one more record like any other
            rid, value = prev
        else:
            rid = len(self.records) + 1
            self.records.append(rid)
            value = T(ids=(rid,))
            self.last_metric[op["type"]] = (rid, value)
        raised = None
        try:
            if op["merge"] == "default":
                ctx.record(value)
            else:
                ctx.record(value, merge=MERGES[op["merge"]])
        except BaseException as exc:  # noqa: BLE001 - "recording never raises into user code"
            raised = exc
        self.ev("record", path, rid=rid, type=op["type"], merge=op["merge"], mscope=mscope, raised=raised)
        if isinstance(raised, asyncio.CancelledError):
            raise raised

    def do_log(self, op, path, mscope):
        token = f"tok{len(self.records) + len(self.log)}x"
        fmt, args = render_log(op["fmt"], token, mapping=bool(op.get("mapping")))
        bad = op.get("bad")
        if bad == "few":  # a conversion without an argument
            fmt, args = fmt + " %s %d", (*args, "only-one") if not (args and isinstance(args[0], dict)) else args
        elif bad == "many":  # more arguments than conversions
            fmt, args = fmt, (*args, "extra", 2) if not (args and isinstance(args[0], dict)) else (args[0], "extra")
        elif bad == "type":  # %d given a string
            fmt, args = fmt + " %d", (*args, "not-a-number") if not (args and isinstance(args[0], dict)) else ("not-a-number",)
        elif bad == "str_raises":  # an argument whose __str__ raises
            fmt, args = fmt + " %s", (*args, _StrRaises()) if not (args and isinstance(args[0], dict)) else (_StrRaises(),)
        exc = LogErr(token) if op.get("exc") else None
        raised = None
        try:
            level = op["level"]
            if level == "info":
                ctx.log_info(fmt, *args)
            elif level == "debug":
                ctx.log_debug(fmt, *args, exception=exc)
            elif level == "warning":
                ctx.log_warning(fmt, *args, exception=exc)
            else:
                ctx.log_error(fmt, *args, exception=exc)
        except BaseException as e:  # noqa: BLE001 - "logging never raises"
            raised = e
        self.ev("logop", path, token=token, level=op["level"], fmt=fmt, args=args, bad=bad, exc=exc if op.get("exc") and op["level"] != "info" else None, mscope=mscope, raised=raised)


class Double:
    """test-double disposable with a scripted behaviour and a call ledger"""

    def __init__(self, run: Run, path, j, spec) -> None:
        self.run, self.path, self.j, self.spec = run, path, j, spec

    # "twin" disposables compare EQUAL to each other (value objects used as resources: a State / dataclass that is also a
    # context manager, two connections with the same settings): each is still its own resource
    def __eq__(self, other):
        if isinstance(other, Double) and self.spec.get("twin") and other.spec.get("twin"):
            return True
        return self is other

    def __hash__(self):
        return 7 if self.spec.get("twin") else id(self)

    async def _behave(self, phase, beh):
        b = beh["b"]
        if b.startswith("suspend"):
            try:
                if "gate" in beh:
                    await self.run.gate(beh["gate"])
                else:
                    await asyncio.sleep(beh.get("t", 1))
            except asyncio.CancelledError:
                self.run.ev(f"d_{phase}_cancelled", self.path, j=self.j)
                if beh.get("absorb"):
                    # best-effort cleanup / set-up that shrugs an interruption off (`except CancelledError: pass` around a
                    # flush): it runs in a helper task of the library, so the scope's own cancellation is not its to absorb
                    return
                raise
        if b.endswith("raise") or b.endswith("raise_base") or b.endswith("raise_cancelled"):
            # "raise_cancelled": the disposable's OWN CancelledError (it stopped an internal worker with cancel() and awaited
            # it) while nobody cancelled the scope's task: still that disposable's error
            cls = DispBase if b.endswith("raise_base") else (asyncio.CancelledError if b.endswith("raise_cancelled") else DispErr)
            e = cls((phase, self.path, self.j))
            self.run.ev(f"d_{phase}_raise", self.path, j=self.j, exc=e)
            raise e

    async def __aenter__(self):
        self.run.ev("d_enter_call", self.path, j=self.j)
        if self.spec["enter"].get("spawn") is not None:
            # a resource that starts its own background task while it is being set up (a connection's reader, a heartbeat):
            # ctx.spawn here lands in the task group of the scope that is being entered
            self.run.spawn({"via": "ctx", "body": [{"k": "wait", "gate": self.spec["enter"]["spawn"]}]}, (*self.path, "dsp", self.j), self.path)
        en = self.spec["enter"]
        if en.get("probe"):
            self.run.ev("d_enter_probe", self.path, j=self.j, when="start", state=self.run.fingerprint()["state"])
        if en.get("own_block") is not None:
            # set-up code that works inside a block of its own (ctx.updated / a helper that opens one) and suspends there: that
            # block is this disposable's private business - its siblings, entering at the same time, do not see it
            with ctx.updated(make_state(en["own_block"])):
                await self._behave("enter", en)
        else:
            await self._behave("enter", en)
        if en.get("probe"):
            self.run.ev("d_enter_probe", self.path, j=self.j, when="end", state=self.run.fingerprint()["state"])
        y = self.spec.get("yields")
        if y is None:
            res = None
        elif isinstance(y, dict):
            res = self.run.inst((self.path, "d", self.j, 0), y)
        else:
            res = [self.run.inst((self.path, "d", self.j, i), sv) for i, sv in enumerate(y)]
            if self.spec.get("as") == "iter":
                res = iter(res)  # a one-shot iterable is a legal Iterable[State]
            elif self.spec.get("as") == "gen":
                res = (x for x in res)
        self.run.ev("d_enter_done", self.path, j=self.j)
        return res

    async def __aexit__(self, et, ev, tb):
        self.run.ev("d_exit_call", self.path, j=self.j, et=et, exc=ev, has_tb=tb is not None)
        if self.spec["exit"].get("release") is not None:
            # closing this resource is what lets tasks that use it finish (a queue being closed, a connection shut down)
            self.run.release(self.spec["exit"]["release"])
        if self.spec["exit"].get("spawn_task") is not None:
            # clean-up code that spawns (a final flush, a background close): while the block is being left the task still lands in
            # the group of the scope that is being left - it is ended with the block like any other task of that scope
            try:
                self.run.spawn({"via": "ctx", "body": [{"k": "sleep", "t": self.spec["exit"]["spawn_task"]}]}, (*self.path, "dsx", self.j), self.path)
            except RuntimeError:
                # asyncio refuses new tasks in a group that is already shutting down (a task of the scope failed): the clean-up
                # goes without its helper task then - not a cleanup error of this disposable
                self.run.ev("d_exit_spawn_refused", self.path, j=self.j)
        await self._behave("exit", self.spec["exit"])
        self.run.ev("d_exit_done", self.path, j=self.j)
        # some context managers report "handled"/"closed" by returning True; scopes document no suppression
        return True if self.spec["exit"].get("ret") else None


def execute(prog, inject_at=None, releases=(), run_cls=Run, after=None):
    """Run prog["body"] as the victim task on a fresh virtual loop.

    inject_at: loop iteration at which victim.cancel() is called (crash point), or None.
    releases: [(virtual time, gate)] scheduled by the driver.
    Returns (run, result) where result has: outcome in {"return","raise","cancelled","hang"}, exc, iterations,
    victim_done_at_inject, errors."""
    holder: dict = {}

    async def main(loop):
        run = run_cls(prog, loop)
        holder["run"] = run

        async def victim():
            await run.ops(prog["body"], (), None)

        for t, g in releases:
            loop.call_at(t, run.release, g)
        vt = loop.create_task(victim())
        holder["victim"] = vt
        try:
            await vt
            res = ("return", None)
        except asyncio.CancelledError as exc:
            res = ("cancelled", exc) if vt.cancelled() else ("raise", exc)
        except BaseException as exc:  # noqa: BLE001 - the program's own outcome
            res = ("raise", exc)
        holder["victim_cancelling"] = vt.cancelling()
        run.ev("victim_done", ())
        if after is not None:
            await after(run)
        # quiescence for everything the harness owns: let spawned tasks finish (gates are released by plan only)
        await vloop.settle()
        return res

    hooks = {}
    if inject_at is not None:

        def hook(loop):
            vt = holder.get("victim")
            holder["injected"] = vt is not None and not vt.done()
            holder["inject_time"] = loop.time()
            # where is the victim suspended right now? (await chain of the task; used to tell apart the documented
            # stdlib TaskGroup behaviour from anything haiway does)
            try:
                codes = []
                c = vt.get_coro() if vt is not None and not vt.done() else None
                while c is not None and len(codes) < 200:  # Task.get_stack() only gives the outermost frame
                    fr = getattr(c, "cr_frame", None) or getattr(c, "gi_frame", None) or getattr(c, "ag_frame", None)
                    if fr is not None:
                        codes.append(fr.f_code)
                    c = getattr(c, "cr_await", None) or getattr(c, "gi_yieldfrom", None) or getattr(c, "ag_await", None)
                # inside the exit of the task group: the stdlib TaskGroup's, or haiway's own task-group context (an
                # implementation that waits for its tasks itself is in the same place as far as the caller can tell)
                holder["in_group_exit"] = any(
                    co.co_name == "__aexit__" and co.co_filename.replace("\\", "/").endswith(("asyncio/taskgroups.py", "haiway/context/tasks.py"))
                    for co in codes
                )
            except Exception:  # noqa: BLE001
                holder["in_group_exit"] = None
            if vt is not None and not vt.done():
                vt.cancel()

        hooks[inject_at] = hook
    res = vloop.run(main, hooks=hooks)
    run = holder.get("run")
    out = {
        "outcome": None,
        "exc": None,
        "iterations": res.iterations,
        "errors": res.errors,
        "injected": holder.get("injected", False),
        "inject_time": holder.get("inject_time"),
        "in_group_exit": holder.get("in_group_exit"),
        "cancelling": holder.get("victim_cancelling"),
        "leftover": res.leftover,
    }
    if res.outcome == "hang":
        out["outcome"] = "hang"
    elif res.outcome == "raise":
        raise res.value
    else:
        out["outcome"], out["exc"] = res.value
        exc = out["exc"]
        if out["outcome"] == "raise" and not isinstance(exc, (ProgErr, ProgBase, DispErr, DispBase, GeneratorExit, asyncio.CancelledError, BaseExceptionGroup)):
            from hv.core import _haiway_frame

            if _haiway_frame(exc.__traceback__) is None:
                raise exc  # a bug in the harness itself, never a verdict
    return run, out


# ------------------------------------------------------------------------------------------ strategies
def sv_strategy():
    from hypothesis import strategies as st

    names = ["A", "A", "B", "R", "A2", "G[int]", "G[str]", "G", "F", "U", "M", "T1", "T2", "GQ1", "GQ2"]
    return st.builds(lambda n, v: {"type": n, "v": None if n == "M" and v % 2 == 0 else v}, st.sampled_from(names), st.integers(1, 9))


OK_BEH = {"b": "ok"}


def simple_disp_strategy():
    """disposables that always succeed (used where faults are not the subject)"""
    from hypothesis import strategies as st

    ys = st.one_of(st.none(), sv_strategy(), st.lists(sv_strategy(), min_size=0, max_size=2))
    beh = st.sampled_from([OK_BEH, OK_BEH, {"b": "suspend_ok", "t": 0.5}])
    # an exit that returns True ("handled", as contextlib-made managers do when they catch what is thrown in) is still
    # not a permission to swallow anything
    exit_beh = st.sampled_from([OK_BEH, OK_BEH, {"b": "suspend_ok", "t": 0.5}, {"b": "ok", "ret": True}])
    return st.builds(
        lambda e, y, x, a: {"enter": e, "yields": y, "exit": x, "as": a}, beh, ys, exit_beh, st.sampled_from(["list", "list", "iter", "gen"])
    )


def walk_blocks(ops, path=()):
    """yield (path, op) for every op in execution-tree order"""
    for i, op in enumerate(ops):
        p = path + (i,)
        yield p, op
        if op["k"] in ("scope", "updated"):
            yield from walk_blocks(op["body"], p)
        elif op["k"] == "spawn":
            yield from walk_blocks(op["body"], p + ("t",))
        elif op["k"] == "try_finally":
            yield from walk_blocks(op["body"], p + ("b",))
            yield from walk_blocks(op["final"], p + ("f",))
