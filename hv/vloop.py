"""Deterministic virtual-time asyncio loop: exact hang detection, crash-point hooks, clock rebinding."""

from __future__ import annotations

import asyncio
import selectors
import sys
import time
from contextlib import contextmanager


class Hang(Exception):
    """The loop is quiescent (nothing ready, nothing scheduled) while the main coroutine is unfinished."""


class _VSelector(selectors.BaseSelector):
    """Selector that never blocks: a timeout advances virtual time instead."""

    def __init__(self, loop: "VLoop") -> None:
        self._loop = loop
        self._real = selectors.DefaultSelector()

    def register(self, fileobj, events, data=None):
        return self._real.register(fileobj, events, data)

    def unregister(self, fileobj):
        return self._real.unregister(fileobj)

    def modify(self, fileobj, events, data=None):
        return self._real.modify(fileobj, events, data)

    def get_map(self):
        return self._real.get_map()

    def close(self):
        self._real.close()

    def select(self, timeout=None):
        ready = self._real.select(0)
        if ready:
            return ready
        if timeout is None:
            raise Hang("event loop quiescent with unfinished work")
        if timeout > 0:
            self._loop._vtime += timeout
        return []


class VLoop(asyncio.SelectorEventLoop):
    def __init__(self) -> None:
        self._vtime = 0.0
        self.iteration = 0
        self.hooks: dict[int, object] = {}
        self.errors: list[dict] = []
        super().__init__(selector=_VSelector(self))
        self._clock_resolution = 1e-12
        self.set_exception_handler(lambda loop, context: self.errors.append(context))

    def time(self) -> float:
        return self._vtime

    def _run_once(self) -> None:
        self.iteration += 1
        hook = self.hooks.pop(self.iteration, None)
        if hook is not None:
            hook()  # type: ignore[operator]
        super()._run_once()


async def settle(limit: int = 100000) -> None:
    """Run the loop until nothing is ready any more (all consequences of the last action happened).
    Does not advance virtual time."""
    loop = asyncio.get_running_loop()
    for _ in range(limit):
        await asyncio.sleep(0)
        if not loop._ready:  # type: ignore[attr-defined]
            return
    raise RuntimeError("settle: loop never became idle")


_CLOCK_SITES = (
    ("haiway.helpers.caching", "monotonic"),
    ("haiway.helpers.throttling", "monotonic"),
    ("haiway.context.metrics", "monotonic"),
)
_REAL_MONOTONIC = time.monotonic


@contextmanager
def clocks(fn):
    """Make haiway read the given clock: rebind the module-level `monotonic` names it imported (the known sites and, by
    identity, every other name in a loaded haiway module that is bound to time.monotonic) and `time.monotonic` itself for
    the duration of the run - so that a library that spells the read differently (`import time; time.monotonic()`, an
    alias, a shared helper module) is still driven by the virtual clock instead of silently mixing real and virtual time."""
    saved = []
    for modname, _ in _CLOCK_SITES:
        if modname not in sys.modules:
            try:
                __import__(modname)
            except ImportError:
                pass
    for modname, mod in list(sys.modules.items()):
        if mod is None or not (modname == "haiway" or modname.startswith("haiway.")):
            continue
        for attr, val in list(vars(mod).items()):
            if val is _REAL_MONOTONIC:
                saved.append((mod, attr, val))
                setattr(mod, attr, fn)
    saved.append((time, "monotonic", time.monotonic))
    time.monotonic = fn
    try:
        yield
    finally:
        for mod, attr, old in saved:
            setattr(mod, attr, old)


class RunResult:
    __slots__ = ("outcome", "value", "iterations", "errors", "hang", "vtime", "leftover")

    def __init__(self):
        self.outcome = None  # "return" | "raise" | "hang"
        self.value = None
        self.iterations = 0
        self.errors = []
        self.hang = False
        self.vtime = 0.0
        self.leftover = 0


def run(main_factory, hooks=None, rebind_clocks=True) -> RunResult:
    """Run `main_factory(loop)` (a coroutine) on a fresh VLoop.

    hooks: {iteration: callable(loop)} executed at the start of that loop iteration.
    After the main coroutine ends (or hangs) every leftover task is cancelled and drained,
    then the loop is closed: nothing survives a case."""
    loop = VLoop()
    asyncio.set_event_loop(loop)
    res = RunResult()
    if hooks:
        for k, fn in hooks.items():
            loop.hooks[k] = (lambda f=fn: f(loop))
    cm = clocks(loop.time) if rebind_clocks else _null()
    try:
        with cm:
            main = main_factory(loop)
            task = loop.create_task(main)
            try:
                loop.run_until_complete(task)
                res.outcome = "return"
                res.value = task.result()
            except Hang:
                res.outcome = "hang"
                res.hang = True
            except BaseException as exc:  # noqa: BLE001 - the main coroutine's own exception
                if isinstance(exc, (KeyboardInterrupt, SystemExit)):
                    raise
                res.outcome = "raise"
                res.value = exc
            res.iterations = loop.iteration
            res.vtime = loop.time()
            # teardown: cancel everything still alive and drain
            for _ in range(50):
                pending = [t for t in asyncio.all_tasks(loop) if not t.done()]
                if not pending:
                    break
                res.leftover = max(res.leftover, len(pending))
                for t in pending:
                    t.cancel()
                try:
                    loop.run_until_complete(_drain(pending))
                except Hang:
                    break
                except BaseException:  # noqa: BLE001
                    pass
            try:
                loop.run_until_complete(loop.shutdown_asyncgens())
            except BaseException:  # noqa: BLE001
                pass
            res.errors = list(loop.errors)
    finally:
        try:
            loop.close()
        finally:
            asyncio.set_event_loop(None)
    return res


async def _drain(pending):
    await asyncio.gather(*pending, return_exceptions=True)


@contextmanager
def _null():
    yield
