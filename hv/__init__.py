"""haiway verification machinery: property-based testing and fuzzing harness (see /verif/DESIGN.md)."""
