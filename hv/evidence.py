"""Evidence accounting: evaluations, distinct non-trivial cases, class distribution, samples."""

from __future__ import annotations

import hashlib
import json
import os
import time
from collections import Counter

from hv.env import VERIF


def canon(case) -> str:
    return json.dumps(case, sort_keys=True, separators=(",", ":"), default=repr)


def case_hash(case) -> int:
    return int.from_bytes(hashlib.blake2b(canon(case).encode(), digest_size=8).digest(), "big")


class Recorder:
    """Per-process accumulator; mergeable across worker processes (plain data only)."""

    MAX_SAMPLES = 8

    def __init__(self) -> None:
        self.evaluations = 0
        self.shrink_evaluations = 0
        self.nontrivial: set[int] = set()
        self.distinct: set[int] = set()
        self.classes: Counter = Counter()
        self.unspecified: Counter = Counter()
        self.excluded: Counter = Counter()
        self.known_seen: Counter = Counter()
        self.samples: list = []
        self.notes: list[str] = []
        self.extra: dict = {}
        self.shrinking = False

    def case(self, case, nontrivial: bool, classes=(), unspecified=(), sample=None) -> None:
        if self.shrinking:
            self.shrink_evaluations += 1
            return
        self.evaluations += 1
        h = case_hash(case)
        new = h not in self.distinct
        self.distinct.add(h)
        for c in classes:
            self.classes[c] += 1
        for u in unspecified:
            self.unspecified[u] += 1
        if nontrivial:
            fresh = h not in self.nontrivial
            self.nontrivial.add(h)
            # keep the first few distinct non-trivial cases, then ones at power-of-two positions
            n = len(self.nontrivial)
            if fresh and (len(self.samples) < self.MAX_SAMPLES // 2 or (n & (n - 1)) == 0):
                self.samples.append(sample if sample is not None else case)
                if len(self.samples) > self.MAX_SAMPLES:
                    del self.samples[self.MAX_SAMPLES // 2]
        elif new and not self.samples and sample is not None:
            pass

    def dump(self) -> dict:
        return {
            "evaluations": self.evaluations,
            "shrink_evaluations": self.shrink_evaluations,
            "nontrivial": list(self.nontrivial),
            "distinct": list(self.distinct),
            "classes": dict(self.classes),
            "unspecified": dict(self.unspecified),
            "excluded": dict(self.excluded),
            "known_seen": dict(self.known_seen),
            "samples": self.samples,
            "notes": self.notes,
            "extra": self.extra,
        }

    def merge(self, d: dict) -> None:
        self.evaluations += d["evaluations"]
        self.shrink_evaluations += d["shrink_evaluations"]
        self.nontrivial.update(d["nontrivial"])
        self.distinct.update(d["distinct"])
        self.classes.update(d["classes"])
        self.unspecified.update(d["unspecified"])
        self.excluded.update(d["excluded"])
        self.known_seen.update(d["known_seen"])
        for s in d["samples"]:
            if len(self.samples) < self.MAX_SAMPLES:
                self.samples.append(s)
        self.notes.extend(d["notes"])
        for k, v in d["extra"].items():
            if isinstance(v, (int, float)) and isinstance(self.extra.get(k, 0), (int, float)):
                self.extra[k] = self.extra.get(k, 0) + v
            else:
                self.extra.setdefault(k, v)


def write(
    pid: str,
    tier: str,
    seed: int,
    level: str,
    rec: Recorder,
    rule: str,
    assumptions: list[str],
    wall_s: float,
    violations: int,
    exhaustive: bool,
    extra: dict | None = None,
) -> str:
    total = max(rec.evaluations, 1)
    coverage = {
        "evaluations": rec.evaluations,
        "distinct_nontrivial": len(rec.nontrivial),
        "distinct_cases": len(rec.distinct),
        "rule": rule,
        "samples": rec.samples[: Recorder.MAX_SAMPLES],
        "exhaustive": bool(exhaustive),
        "shrink_evaluations": rec.shrink_evaluations,
        "class_distribution": {
            k: {"cases": v, "fraction": round(v / total, 4)} for k, v in sorted(rec.classes.items())
        },
        "unspecified": dict(sorted(rec.unspecified.items())),
        "excluded_by_known_finding": dict(sorted(rec.excluded.items())),
        "known_findings_observed": dict(sorted(rec.known_seen.items())),
    }
    if rec.notes:
        coverage["notes"] = rec.notes[:20]
    coverage.update(rec.extra)
    if extra:
        coverage.update(extra)
    doc = {
        "property_id": pid,
        "tier": tier,
        "seed": seed,
        "level": level,
        "coverage": coverage,
        "assumptions": assumptions,
        "wall_s": round(wall_s, 3),
        "violations": violations,
        "written_at_unix": int(time.time()),
    }
    path = os.path.join(VERIF, "evidence", f"{pid}.json")
    if os.environ.get("HV_NO_EVIDENCE"):  # sensitivity runs against scratch copies must not touch evidence
        return "(evidence not written: HV_NO_EVIDENCE)"
    os.makedirs(os.path.dirname(path), exist_ok=True)
    tmp = path + ".tmp"
    with open(tmp, "w") as f:
        json.dump(doc, f, indent=1, sort_keys=False, default=repr)
        f.write("\n")
    os.replace(tmp, path)
    return path
