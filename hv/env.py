"""Locate the haiway tree under test and make the harness environment quiet and deterministic."""

from __future__ import annotations

import logging
import os
import sys

VERIF = os.path.dirname(os.path.dirname(os.path.abspath(__file__)))
HARNESS_ERROR = 2

_unraisable: list = []


class HarnessError(Exception):
    """Something is wrong with the harness or its environment (never a property violation)."""


def bootstrap() -> str:
    deps = os.path.join(VERIF, ".deps")
    if os.path.isdir(deps) and deps not in sys.path:
        sys.path.append(deps)
    src = os.path.realpath(os.environ.get("HAIWAY_SRC", "/repo/src"))
    if src in sys.path:
        sys.path.remove(src)
    sys.path.insert(0, src)
    if VERIF not in sys.path:
        sys.path.insert(1, VERIF)
    # the guard named in MANIFEST.hooks; no source commit depends on it, it is set for uniformity
    os.environ.setdefault("HAIWAY_VERIF", "1")
    try:
        import haiway  # noqa: F401
    except BaseException as exc:  # import failure of the tree under test: harness error, not violation
        raise HarnessError(f"cannot import haiway from {src}: {exc!r}") from exc
    found = os.path.realpath(haiway.__file__)
    if not found.startswith(src + os.sep):
        raise HarnessError(f"haiway imported from {found}, expected under {src}")
    # silence logging noise: the library logs through scope-named loggers that propagate to root
    root = logging.getLogger()
    if not any(isinstance(h, logging.NullHandler) for h in root.handlers):
        root.addHandler(logging.NullHandler())
    logging.lastResort = None  # type: ignore[assignment]
    import warnings

    # "coroutine ... was never awaited": spawning into an already finished task group raises and drops the coroutine
    warnings.filterwarnings("ignore", category=RuntimeWarning)
    # haiway's ScopeMetrics.__del__ asserts; collect instead of printing
    sys.unraisablehook = lambda info: _unraisable.append(info)  # type: ignore[assignment]
    return src


def unraisable() -> list:
    return _unraisable


def seed() -> int:
    try:
        return int(os.environ.get("VERIF_SEED", "1"))
    except ValueError:
        return 1
