"""Fixed helper types referenced by generated State classes (imported with * by the generated modules)."""

from collections.abc import Callable, Mapping, Sequence, Set
from datetime import date, datetime, time, timedelta
from enum import Enum
from pathlib import Path
from typing import Any, Literal, Optional, Protocol, Self, Union, runtime_checkable
from uuid import UUID

from haiway import MISSING, Missing, State

__all__ = [
    "Any", "Callable", "Color", "GBox", "Impl", "Inner", "InnerSub", "Literal", "MISSING", "Mapping", "Missing",
    "MaybeImpl", "Node", "NotImpl", "Optional", "Path", "Proto", "Self", "Sequence", "Set", "Size", "State", "UUID", "Union",
    "date", "datetime", "time", "timedelta",
]  # fmt: skip


class Color(Enum):
    RED = "red"
    GREEN = "green"


class Size(Enum):
    S = 1
    L = 2


@runtime_checkable
class Proto(Protocol):
    def run(self) -> int: ...


class Impl:
    def run(self) -> int:
        return 1

    def __eq__(self, other):
        return type(other) is Impl

    def __hash__(self):
        return 7


class NotImpl:
    def walk(self) -> int:
        return 1


class MaybeImpl:
    """conformance to the protocol is a property of the INSTANCE here (the member is assigned per instance), not of the class"""

    def __init__(self, ok: bool) -> None:
        self.ok = ok
        if ok:
            self.run = lambda: 1

    def __eq__(self, other):
        return type(other) is MaybeImpl and other.ok == self.ok

    def __hash__(self):
        return 8 + int(self.ok)

    def __repr__(self):
        return f"MaybeImpl({self.ok})"


class Inner(State):
    v: int
    w: str = "w"


class InnerSub(Inner):
    z: int = 0


class Node(State):
    val: int
    nxt: "Node | None" = None


class GBox[T](State):
    v: T
    items: Sequence[T] = ()
