"""Annotation-term AST, class-source renderer, value AST, independent conformance oracle, generators.

Everything here is plain data (dict/list/str/int): a case is JSON, a replay file is readable, and the
oracle never looks at haiway's own AttributeAnnotation objects."""

from __future__ import annotations

import collections
import datetime as _dt
import sys
import types
import uuid as _uuid
from collections.abc import Mapping, Sequence, Set
from pathlib import Path

from hypothesis import strategies as st

from haiway import MISSING
from hv import termlib as L

# ----------------------------------------------------------------------------------------------- terms
NOMINAL = {
    "bool": bool,
    "int": int,
    "float": float,
    "str": str,
    "bytes": bytes,
    "uuid": _uuid.UUID,
    "date": _dt.date,
    "datetime": _dt.datetime,
    "time": _dt.time,
    "timedelta": _dt.timedelta,
    "path": Path,
}
NOMINAL_SRC = {
    "bool": "bool", "int": "int", "float": "float", "str": "str", "bytes": "bytes", "uuid": "UUID", "date": "date",
    "datetime": "datetime", "time": "time", "timedelta": "timedelta", "path": "Path",
}  # fmt: skip
ENUMS = {"Color": L.Color, "Size": L.Size}
STATES = {"Inner": L.Inner, "Node": L.Node}
LITERALS = [[1, "a"], ["x", "y"], [True], [1, 2, 3], [None, "n"], [0]]
TARGS = ["int", "str", "Inner", "Color", "bool", "seq_int", "seq_str"]  # arguments used to specialise generics
# pairs whose rendered names coincide or are easily confused: both specialisations are created in one case
TARG_SIBLING = {"seq_int": "seq_str", "seq_str": "seq_int", "int": "str", "str": "int", "bool": "int", "Inner": "Color", "Color": "Inner"}
TARG_SRC = {"seq_int": "Sequence[int]", "seq_str": "Sequence[str]"}


def T(kind, **kw):
    return {"t": kind, **kw}


def _targ_term(name):
    if name == "seq_int":
        return T("seq", of=T("int"))
    if name == "seq_str":
        return T("seq", of=T("str"))
    if name in NOMINAL:
        return T(name)
    if name in STATES:
        return T("state", s=name)
    return T("enum", e=name)


def render(term, aliases: list) -> str:
    """type expression source; alias definitions are appended to `aliases` in order of appearance"""
    k = term["t"]
    if k in NOMINAL_SRC:
        return NOMINAL_SRC[k]
    if k == "none":
        return "None"
    if k == "enum":
        return term["e"]
    if k == "literal":
        return "Literal[" + ", ".join(repr(v) for v in term["vals"]) + "]"
    if k == "any":
        return "Any"
    if k == "missing":
        return "Missing"
    if k == "callable":
        return "Callable[[int], str]" if term.get("form") == "sig" else "Callable[..., Any]"
    if k == "protocol":
        return "Proto"
    if k == "state":
        return term["s"]
    if k == "self":
        return "Self"
    if k == "generic":
        return f"GBox[{TARG_SRC.get(term['arg'], term['arg'])}]"
    if k == "tvar":
        return "T"
    if k == "var":
        return "X"
    if k == "seq":
        return f"Sequence[{render(term['of'], aliases)}]"
    if k == "tuple_var":
        return f"tuple[{render(term['of'], aliases)}, ...]"
    if k == "tuple_fixed":
        return "tuple[" + ", ".join(render(x, aliases) for x in term["items"]) + "]"
    if k == "set":
        return f"Set[{render(term['of'], aliases)}]"
    if k == "frozenset":
        return f"frozenset[{render(term['of'], aliases)}]"
    if k == "map":
        return f"Mapping[{render(term['k'], aliases)}, {render(term['v'], aliases)}]"
    if k == "union":
        parts = [render(x, aliases) for x in term["alts"]]
        if term.get("form") == "typing" or parts.count("None") > 1 or (parts[0] == "None" and parts[1].startswith(("None", "'"))):
            return "Union[" + ", ".join(parts) + "]"  # `None | None` is not valid Python
        return " | ".join(parts)
    if k == "optional":
        inner = render(term["of"], aliases)
        return f"Optional[{inner}]" if (term.get("form") == "typing" or inner == "None") else f"{inner} | None"
    if k == "alias":
        body = render(term["of"], aliases)
        name = f"A{len(aliases)}"
        aliases.append(f"type {name} = {body}")
        return name
    if k == "alias_param":
        body = render(term["body"], aliases)
        arg = render(term["arg"], aliases)
        # one alias per distinct body: two uses of the same parametrised alias with DIFFERENT arguments in one class are
        # ordinary code (`ints: Pair[int]`, `strs: Pair[str]`)
        for line in aliases:
            if line.endswith(f"[X] = {body}"):
                return f"{line.split()[1].split('[')[0]}[{arg}]"
        name = f"A{len(aliases)}"
        aliases.append(f"type {name}[X] = {body}")
        return f"{name}[{arg}]"
    raise ValueError(k)


def class_source(cls) -> str:
    """cls: {"generic": bool, "attrs": [{"name","term","default"}]}"""
    aliases: list = []
    lines = []
    redeclared = None
    for n, a in enumerate(cls["attrs"]):
        ann = render(a["term"], aliases)
        if n == 0 and cls.get("derived") == "redeclare" and not cls["generic"] and a.get("default") is None:
            # the base class declares this attribute with ANOTHER annotation; the derived class (the one under test)
            # re-declares it with the generated one - its own declaration is the one that counts
            redeclared = f"    {a['name']}: {ann}"
            lines.append(f"    {a['name']}: bytes")
            continue
        if a.get("default") is not None:
            lines.append(f"    {a['name']}: {ann} = {render_value(a['default'])}")
        else:
            lines.append(f"    {a['name']}: {ann}")
    if cls.get("alias_var"):
        # the parameter of the module-level aliases is spelled like the class's own type parameter (`type A0[T] = ...` next
        # to `class C0[T]`): two unrelated variables that only share a name
        import re as _re

        aliases = [_re.sub(r"\bX\b", cls["alias_var"], line) for line in aliases]
    head = "class C0[T](State):" if cls["generic"] else "class C0(State):"
    if not lines:
        lines = ["    pass"]
    if cls.get("derived") and not cls["generic"]:
        # a derived class that declares one more attribute and inherits the rest: it is the class under test then
        lines = [*lines, "class C0D(C0):", *([redeclared] if redeclared else []), "    hv_extra: int = 0"]
    # postponed evaluation of annotations (PEP 563): every annotation reaches the library as a string. Only for
    # non-generic classes: typing.get_type_hints of Python 3.12.1 cannot see PEP 695 type parameters from strings.
    future = ["from __future__ import annotations"] if cls.get("future") and not cls["generic"] else []
    return "\n".join([*future, "from hv.termlib import *", *aliases, head, *lines]) + "\n"


_CLASS_CACHE: "collections.OrderedDict[str, object]" = collections.OrderedDict()
_MODULE_SEQ = [0]


def define_named(src: str, name: str):
    """exec the source in a NEW module object registered under a GIVEN module name (replacing whatever module had that
    name before, as a reload / a notebook cell run again / a class factory would). Never cached."""
    mod = types.ModuleType(name)
    sys.modules[name] = mod
    exec(compile(src, f"<{name}>", "exec", dont_inherit=True), mod.__dict__)  # noqa: S102 - generated from our own AST
    return mod


def define(src: str):
    """exec the source in a real module registered in sys.modules (haiway resolves annotations through
    typing.get_type_hints, which reads the module globals). Cached by source text. Returns the module."""
    hit = _CLASS_CACHE.get(src)
    if hit is not None:
        _CLASS_CACHE.move_to_end(src)
        if isinstance(hit, BaseException):
            raise hit
        return hit
    _MODULE_SEQ[0] += 1
    name = f"hv_gen_{_MODULE_SEQ[0]}"
    mod = types.ModuleType(name)
    sys.modules[name] = mod
    try:
        exec(compile(src, f"<{name}>", "exec", dont_inherit=True), mod.__dict__)  # noqa: S102 - generated from our own AST
        result: object = mod
    except Exception as exc:  # noqa: BLE001 - reported by the caller as a definition failure
        result = exc
        sys.modules.pop(name, None)
    _CLASS_CACHE[src] = result
    while len(_CLASS_CACHE) > 400:
        _, old = _CLASS_CACHE.popitem(last=False)
        if isinstance(old, types.ModuleType):
            sys.modules.pop(old.__name__, None)
    if isinstance(result, BaseException):
        raise result
    return result


# ---------------------------------------------------------------------------------------------- values
def V(kind, **kw):
    return {"v": kind, **kw}


class Env:
    __slots__ = ("cls", "targ", "var", "base")

    def __init__(self, cls=None, targ=None, var=None, base=None):
        # cls: the class under test (what `Self` means); base: its base class when the class under test is a DERIVED class
        # that inherits every attribute (then an instance of the base is not a `Self`)
        self.cls, self.targ, self.var, self.base = cls, targ, var, base

    def with_var(self, var):
        return Env(self.cls, self.targ, var, self.base)


def build(v, env: Env):
    """value AST -> Python object"""
    k = v["v"]
    if k in ("int", "float", "str", "bool"):
        return v["x"]
    if k == "bytes":
        return v["x"].encode()
    if k == "none":
        return None
    if k == "missing":
        return MISSING
    if k == "uuid":
        return _uuid.UUID(int=v["x"])
    if k == "date":
        return _dt.date(2020, 1, 1 + v["x"] % 28)
    if k == "datetime":
        return _dt.datetime(2021, 2, 1 + v["x"] % 28, 3, 4, 5)
    if k == "time":
        return _dt.time(v["x"] % 24, 30)
    if k == "timedelta":
        return _dt.timedelta(seconds=v["x"])
    if k == "path":
        return Path(v["x"])
    if k == "enum":
        return ENUMS[v["e"]][v["m"]]
    if k == "callable":
        return len if v["x"] == "len" else _some_function
    if k == "impl":
        return L.Impl()
    if k == "notimpl":
        return L.NotImpl()
    if k == "maybeimpl":
        return L.MaybeImpl(v["ok"])
    if k == "obj":
        return _OBJ
    if k == "state":
        cls = {"Inner": L.Inner, "InnerSub": L.InnerSub, "Node": L.Node}[v["s"]]
        return cls(**{n: build(x, env) for n, x in v["f"].items()})
    if k == "gbox":
        cls = L.GBox if v["arg"] is None else L.GBox[_targ_type(v["arg"])]
        return cls(v=build(v["val"], env), items=[build(x, env) for x in v.get("items", [])])
    if k == "selfinst":
        return env.cls(**{n: build(x, env) for n, x in v["f"].items()})
    if k == "baseinst":
        return (env.base or env.cls)(**{n: build(x, env) for n, x in v["f"].items()})
    if k == "list":
        return [build(x, env) for x in v["items"]]
    if k == "tuple":
        return tuple(build(x, env) for x in v["items"])
    if k == "deque":
        return collections.deque(build(x, env) for x in v["items"])
    if k == "range":
        return range(v["n"])
    if k == "set":
        return {build(x, env) for x in v["items"]}
    if k == "frozenset":
        return frozenset(build(x, env) for x in v["items"])
    if k == "keysview":
        return {build(x, env): None for x in v["items"]}.keys()
    if k == "dict":
        return {build(a, env): build(b, env) for a, b in v["items"]}
    if k == "odict":
        return collections.OrderedDict((build(a, env), build(b, env)) for a, b in v["items"])
    if k == "mproxy":
        backing = {build(a, env): build(b, env) for a, b in v["items"]}
        proxy = types.MappingProxyType(backing)
        PROXY_BACKING[id(proxy)] = (proxy, backing)  # a proxy is only a VIEW: the caller can still mutate the dict behind it
        if len(PROXY_BACKING) > 2000:
            PROXY_BACKING.clear()
        return proxy
    raise ValueError(k)


PROXY_BACKING: dict = {}


def _some_function(x):
    return str(x)


_OBJ = object()


def gen_plain_value(targ):
    """one fixed conforming value AST for a type argument name (used by enumerations)"""
    return {
        "int": V("int", x=1),
        "str": V("str", x="s"),
        "bool": V("bool", x=True),
        "Inner": V("state", s="Inner", f={"v": V("int", x=1)}),
        "Color": V("enum", e="Color", m="RED"),
        "seq_int": V("tuple", items=[V("int", x=1)]),
        "seq_str": V("tuple", items=[V("str", x="s")]),
    }.get(targ)


def _targ_type(name):
    if name == "seq_int":
        return Sequence[int]
    if name == "seq_str":
        return Sequence[str]
    if name in NOMINAL:
        return NOMINAL[name]
    if name in STATES:
        return STATES[name]
    return ENUMS[name]


def render_value(v) -> str:
    """value AST -> source expression (used for class-level defaults)"""
    k = v["v"]
    if k in ("int", "float", "str", "bool"):
        return repr(v["x"])
    if k == "bytes":
        return repr(v["x"].encode())
    if k == "none":
        return "None"
    if k == "missing":
        return "MISSING"
    if k == "uuid":
        return f"UUID(int={v['x']})"
    if k == "date":
        return f"date(2020, 1, {1 + v['x'] % 28})"
    if k == "datetime":
        return f"datetime(2021, 2, {1 + v['x'] % 28}, 3, 4, 5)"
    if k == "time":
        return f"time({v['x'] % 24}, 30)"
    if k == "timedelta":
        return f"timedelta(seconds={v['x']})"
    if k == "path":
        return f"Path({v['x']!r})"
    if k == "enum":
        return f"{v['e']}.{v['m']}"
    if k == "callable":
        if v["x"] != "len":
            raise ValueError("only the builtin can be rendered")
        return "len"
    if k == "impl":
        return "Impl()"
    if k == "notimpl":
        return "NotImpl()"
    if k == "maybeimpl":
        return f"MaybeImpl({v['ok']})"
    if k == "state":
        return v["s"] + "(" + ", ".join(f"{n}={render_value(x)}" for n, x in v["f"].items()) + ")"
    if k == "gbox":
        cls = "GBox" if v["arg"] is None else f"GBox[{TARG_SRC.get(v['arg'], v['arg'])}]"
        return f"{cls}(v={render_value(v['val'])}, items=[{', '.join(render_value(x) for x in v.get('items', []))}])"
    if k in ("list", "deque"):
        return "[" + ", ".join(render_value(x) for x in v["items"]) + "]"
    if k == "tuple":
        return "(" + "".join(render_value(x) + ", " for x in v["items"]) + ")"
    if k == "range":
        return f"range({v['n']})"
    if k in ("set", "frozenset", "keysview"):
        return "frozenset([" + ", ".join(render_value(x) for x in v["items"]) + "])"
    if k in ("dict", "odict", "mproxy"):
        return "{" + ", ".join(f"{render_value(a)}: {render_value(b)}" for a, b in v["items"]) + "}"
    raise ValueError(f"value kind {k} cannot be a default")


# ---------------------------------------------------------------------------------------------- oracle
def and3(values):
    res = True
    for x in values:
        if x is False:
            return False
        if x is None:
            res = None
    return res


def or3(values):
    res = False
    for x in values:
        if x is True:
            return True
        if x is None:
            res = None
    return res


def teq(a, b) -> bool:
    """type-aware equality: 1 != True != 1.0"""
    if type(a) is not type(b):
        return False
    try:
        return bool(a == b)
    except Exception:  # noqa: BLE001
        return a is b


def conforms(t, v, env: Env, why: list | None = None):
    """True / False / None (= unspecified by the property statement, docs and callers)"""
    k = t["t"]
    if k == "any":
        return True
    if k == "none":
        return v is None
    if k == "missing":
        return v is MISSING
    if k == "float":
        if isinstance(v, float):
            return True
        if isinstance(v, int):
            _note(why, "int-for-float")
            return None
        return False
    if k in NOMINAL:
        return isinstance(v, NOMINAL[k])
    if k == "enum":
        return isinstance(v, ENUMS[t["e"]])
    if k == "literal":
        if any(teq(v, m) for m in t["vals"]):
            return True
        try:
            if any(v == m for m in t["vals"]):
                _note(why, "cross-type-equal-literal")
                return None
        except Exception:  # noqa: BLE001
            pass
        return False
    if k == "callable":
        return callable(v)
    if k == "protocol":
        return isinstance(v, L.Proto)
    if k == "state":
        return isinstance(v, STATES[t["s"]])
    if k == "self":
        return isinstance(v, env.cls)
    if k == "generic":
        arg = t["arg"]
        if arg == "T":  # the enclosing class's own parameter
            if env.targ is None:
                if isinstance(v, L.GBox):
                    _note(why, "generic-of-unbound-parameter")
                    return None
                return False
            arg = env.targ
        if isinstance(v, L.GBox[_targ_type(arg)]):
            return True
        if type(v) is L.GBox:
            _note(why, "unspecialised-generic-instance")
            return None
        return False
    if k == "tvar":
        return True if env.targ is None else conforms(_targ_term(env.targ), v, env, why)
    if k == "var":
        return conforms(env.var, v, env, why)
    if k in ("seq", "tuple_var", "tuple_fixed"):
        if isinstance(v, (str, bytes, bytearray)):
            if k == "seq":
                _note(why, "str-or-bytes-for-sequence")
                return None
            return False
        if not isinstance(v, Sequence):
            return False
        if k == "tuple_fixed":
            if len(v) != len(t["items"]):
                return False
            inner = and3(conforms(x, e, env, why) for x, e in zip(t["items"], v))
        else:
            inner = and3(conforms(t["of"], e, env, why) for e in v)
        if k != "seq" and not isinstance(v, tuple) and inner is not False:
            _note(why, "non-tuple-sequence-for-tuple")
            return None
        return inner
    if k in ("set", "frozenset"):
        if not isinstance(v, Set):
            return False
        inner = and3(conforms(t["of"], e, env, why) for e in v)
        if k == "frozenset" and not isinstance(v, frozenset) and inner is not False:
            _note(why, "non-frozenset-set-for-frozenset")
            return None
        return inner
    if k == "map":
        if not isinstance(v, Mapping):
            return False
        return and3(
            and3([conforms(t["k"], a, env, why), conforms(t["v"], b, env, why)]) for a, b in v.items()
        )
    if k == "union":
        return or3(conforms(x, v, env, why) for x in t["alts"])
    if k == "optional":
        return or3([v is None, conforms(t["of"], v, env, why)])
    if k == "alias":
        return conforms(t["of"], v, env, why)
    if k == "alias_param":
        return conforms(t["body"], v, env.with_var(t["arg"]), why)
    raise ValueError(k)


def _note(why, reason):
    if why is not None and reason not in why:
        why.append(reason)


def stored_ok(t, v, s, env: Env):
    """Is `s` a faithful stored form of the conforming value `v` for term `t`? True / False / None."""
    k = t["t"]
    if k in ("seq", "tuple_var", "tuple_fixed"):
        if isinstance(s, (str, bytes)) or not isinstance(s, Sequence) or len(s) != len(v):
            return False
        terms = t["items"] if k == "tuple_fixed" else [t["of"]] * len(v)
        return and3(stored_ok(x, a, b, env) for x, a, b in zip(terms, v, s))
    if k in ("set", "frozenset"):
        if not isinstance(s, Set) or len(s) != len(v):
            return False
        rest = list(s)
        for e in v:
            for i, c in enumerate(rest):
                if stored_ok(t["of"], e, c, env) is True:
                    del rest[i]
                    break
            else:
                return False
        return True
    if k == "map":
        if not isinstance(s, Mapping) or len(s) != len(v):
            return False
        skeys = list(s.keys())
        res = []
        for a, b in v.items():
            match = [c for c in skeys if stored_ok(t["k"], a, c, env) is True]
            if not match:
                return False
            res.append(stored_ok(t["v"], b, s[match[0]], env))
        return and3(res)
    if k == "union":
        return or3(
            stored_ok(x, v, s, env) if c is True else (None if c is None else False)
            for x in t["alts"]
            for c in [conforms(x, v, env)]
        )
    if k == "optional":
        if v is None:
            return s is None
        return stored_ok(t["of"], v, s, env)
    if k == "alias":
        return stored_ok(t["of"], v, s, env)
    if k == "alias_param":
        return stored_ok(t["body"], v, s, env.with_var(t["arg"]))
    if k == "tvar":
        return (s is v or teq(s, v)) if env.targ is None else stored_ok(_targ_term(env.targ), v, s, env)
    if k == "var":
        return stored_ok(env.var, v, s, env)
    if k == "any":
        # Any keeps what it was given: identity, or equal for value types
        return s is v or teq(s, v)
    # nominal kinds, states, generics, callables, protocols, literals, None, Missing
    return s is v or teq(s, v)


# ------------------------------------------------------------------------------------------ generators
HASHABLE_LEAVES = [T("int"), T("str"), T("enum", e="Color"), T("uuid"), T("literal", vals=["x", "y"])]
KEY_TERMS = [T("str"), T("int"), T("enum", e="Size"), T("literal", vals=["x", "y"])]


def leaf_terms(generic: bool, allow_self: bool):
    leaves = [T(k) for k in NOMINAL] + [
        T("none"),
        T("enum", e="Color"),
        T("enum", e="Size"),
        T("any"),
        T("missing"),
        T("callable"),
        T("callable", form="sig"),
        T("protocol"),
        T("state", s="Inner"),
        T("state", s="Node"),
    ]
    leaves += [T("literal", vals=v) for v in LITERALS]
    leaves += [T("generic", arg=a) for a in TARGS]
    if generic:
        leaves += [T("tvar")] * 3 + [T("generic", arg="T")] * 2
    return leaves


_TERM_STRATS: dict = {}


def term_strategy(generic: bool, allow_self: bool, max_depth: int = 4):
    """memoised: building (and validating) the recursive strategy per draw costs ~0.3 s"""
    key = (generic, allow_self, max_depth)
    if key not in _TERM_STRATS:
        _TERM_STRATS[key] = _term_strategy(generic, allow_self, max_depth)
    return _TERM_STRATS[key]


def _term_strategy(generic: bool, allow_self: bool, max_depth: int = 4):
    # alias definitions live at module level: their bodies must not mention the class's T or Self
    plain = term_strategy(False, False, 2) if (generic or allow_self) else None
    leaves = st.sampled_from(leaf_terms(generic, allow_self))
    hashable = st.one_of(
        st.sampled_from(HASHABLE_LEAVES),
        st.just(T("union", alts=[T("int"), T("str")])),
        st.just(T("tuple_fixed", items=[T("int"), T("str")])),
    )
    form = st.sampled_from(["pipe", "pipe", "typing"])
    argterms = term_strategy(generic, False, 1) if allow_self else st.deferred(lambda: level(1))

    def level(d):
        if d <= 0:
            return leaves
        sub = st.deferred(lambda: level(d - 1))
        var_bodies = st.sampled_from(
            [
                T("seq", of=T("var")),
                T("map", k=T("str"), v=T("var")),
                T("tuple_var", of=T("var")),
                T("union", alts=[T("var"), T("none")]),
                T("tuple_fixed", items=[T("var"), T("int")]),
                T("var"),
                T("seq", of=T("union", alts=[T("var"), T("none")])),
            ]
        )
        options = [
            leaves,
            st.builds(lambda x: T("seq", of=x), sub),
            st.builds(lambda x: T("tuple_var", of=x), sub),
            st.builds(lambda xs: T("tuple_fixed", items=xs), st.lists(sub, min_size=1, max_size=3)),
            st.builds(lambda x: T("set", of=x), hashable),
            st.builds(lambda x: T("frozenset", of=x), hashable),
            st.builds(lambda a, b: T("map", k=a, v=b), st.sampled_from(KEY_TERMS), sub),
            st.builds(lambda xs, f: T("union", alts=xs, form=f), st.lists(sub, min_size=2, max_size=3), form),
            st.builds(lambda x, f: T("optional", of=x, form=f), sub, form),
            st.builds(lambda x: T("alias", of=x), plain if plain is not None else sub),
            # the argument is written at class scope (T is allowed there); Self inside an alias is documented as unresolved
            st.builds(lambda b, x: T("alias_param", body=b, arg=x), var_bodies, argterms),
        ]
        if allow_self:
            options.append(st.just(T("optional", of=T("self"))))
            options.append(st.just(T("seq", of=T("self"))))
        return st.one_of(*options)

    return st.one_of(level(1), level(2), level(3), level(max_depth))


def term_depth(t) -> int:
    k = t["t"]
    subs = []
    for key in ("of", "k", "v", "body", "arg"):
        if isinstance(t.get(key), dict):
            subs.append(t[key])
    for key in ("items", "alts"):
        if key in t:
            subs.extend(t[key])
    return 1 + max([term_depth(x) for x in subs] + [0]) if subs or k else 1


def term_kinds(t, acc=None) -> set:
    acc = set() if acc is None else acc
    acc.add(t["t"])
    for key in ("of", "k", "v", "body", "arg"):
        if isinstance(t.get(key), dict):
            term_kinds(t[key], acc)
    for key in ("items", "alts"):
        for x in t.get(key, []):
            term_kinds(x, acc)
    return acc


# pools of distinct hashable values per hashable leaf kind
def _distinct_pool(t):
    k = t["t"]
    if k == "int":
        return [V("int", x=i) for i in (0, 1, 2, 5, -3)]
    if k == "str":
        return [V("str", x=s) for s in ("a", "ab", "b", "", "x y")]
    if k == "enum":
        return [V("enum", e=t["e"], m=m) for m in ENUMS[t["e"]].__members__]
    if k == "uuid":
        return [V("uuid", x=i) for i in (1, 2, 3)]
    if k == "literal":
        return [_lit_value(m) for m in t["vals"]]
    if k == "union":
        return [V("int", x=4), V("str", x="u"), V("int", x=9), V("str", x="w")]
    if k == "tuple_fixed":
        return [V("tuple", items=[V("int", x=i), V("str", x=s)]) for i, s in ((1, "a"), (2, "a"), (1, "b"))]
    raise ValueError(k)


def _lit_value(m):
    if m is None:
        return V("none")
    if isinstance(m, bool):
        return V("bool", x=m)
    if isinstance(m, int):
        return V("int", x=m)
    return V("str", x=m)


def gen_value(draw, t, ctx, depth=0):
    """conforming value AST for term t. ctx: {"targ": name|None, "self_attrs": attrs|None, "var": term|None}"""
    k = t["t"]
    small = st.integers(0, 3)
    if k == "none":
        return V("none")
    if k == "missing":
        return V("missing")
    if k == "bool":
        return V("bool", x=draw(st.booleans()))
    if k == "int":
        return draw(st.sampled_from([V("int", x=0), V("int", x=7), V("int", x=-1), V("bool", x=True), V("int", x=2**40)]))
    if k == "float":
        if draw(st.integers(0, 9)) == 0:
            return V("int", x=3)  # int offered for float: UNSPECIFIED, counted
        return V("float", x=draw(st.sampled_from([0.0, 1.5, -2.25, 1e10])))
    if k == "str":
        return V("str", x=draw(st.sampled_from(["", "a", "ab", "zz top", "ß"])))
    if k == "bytes":
        return V("bytes", x=draw(st.sampled_from(["", "ab"])))
    if k == "uuid":
        return V("uuid", x=draw(st.integers(1, 5)))
    if k == "date":
        return draw(st.sampled_from([V("date", x=1), V("datetime", x=2)]))  # datetime is a date
    if k in ("datetime", "time", "timedelta"):
        return V(k, x=draw(st.integers(0, 30)))
    if k == "path":
        return V("path", x=draw(st.sampled_from(["a", "a/b.txt", "."])))
    if k == "enum":
        return V("enum", e=t["e"], m=draw(st.sampled_from(sorted(ENUMS[t["e"]].__members__))))
    if k == "literal":
        if 1 in t["vals"] and draw(st.integers(0, 9)) == 0:
            return V("bool", x=True)  # cross-type-equal member: UNSPECIFIED, counted (PEP 586 vs runtime ==)
        return _lit_value(draw(st.sampled_from(t["vals"])))
    if k == "any":
        return draw(
            st.sampled_from(
                [V("int", x=1), V("str", x="any"), V("none"), V("list", items=[V("int", x=1)]), V("obj"),
                 V("dict", items=[[V("str", x="k"), V("int", x=1)]]), V("state", s="Inner", f={"v": V("int", x=1)})]
            )  # fmt: skip
        )
    if k == "callable":
        return V("callable", x=draw(st.sampled_from(["len", "fn"])))
    if k == "protocol":
        return draw(st.sampled_from([V("impl"), V("impl"), V("maybeimpl", ok=True)]))
    if k == "state":
        if t["s"] == "Inner":
            f = {"v": V("int", x=draw(small))}
            if draw(st.booleans()):
                f["w"] = V("str", x="q")
            return V("state", s=draw(st.sampled_from(["Inner", "Inner", "InnerSub"])), f=f)
        f = {"val": V("int", x=draw(small))}
        if depth < 3 and draw(st.booleans()):
            f["nxt"] = gen_value(draw, t, ctx, depth + 2)
        return V("state", s="Node", f=f)
    if k == "generic":
        arg = t["arg"]
        if arg == "T":
            arg = ctx.get("targ") or "int"
        at = _targ_term(arg)
        return V("gbox", arg=arg, val=gen_value(draw, at, ctx, depth + 1),
                 items=[gen_value(draw, at, ctx, depth + 1) for _ in range(draw(st.integers(0, 2)))])  # fmt: skip
    if k == "self":
        # an instance of the class under test needs conforming values for all its required attributes
        attrs = ctx.get("self_attrs") or []
        if depth >= 2 or ctx.get("self_impossible"):
            return None
        f = {}
        for a in attrs:
            if a.get("default") is not None and a.get("default_ok", True):
                continue
            sub = gen_value(draw, a["term"], ctx, depth + 2)
            if sub is None:
                return None
            f[a["name"]] = sub
        if ctx.get("derived") and draw(st.integers(0, 1)) == 0:
            # the class under test is derived: an instance of its BASE class in a `Self` position (not a Self)
            return V("baseinst", f=f)
        return V("selfinst", f=f)
    if k == "tvar":
        if ctx.get("targ") is None:
            return draw(st.sampled_from([V("int", x=3), V("str", x="t"), V("none")]))
        return gen_value(draw, _targ_term(ctx["targ"]), ctx, depth + 1)
    if k == "var":
        return gen_value(draw, ctx["var"], ctx, depth + 1)
    if k in ("seq", "tuple_var"):
        n = draw(st.integers(0, 3 if depth < 2 else 1))
        items = []
        for _ in range(n):
            x = gen_value(draw, t["of"], ctx, depth + 1)
            if x is None:
                break
            items.append(x)
        if k == "tuple_var":
            return V("tuple", items=items)
        if t["of"]["t"] == "int" and items == [] and draw(st.booleans()):
            return V("range", n=draw(st.integers(0, 3)))
        return V(draw(st.sampled_from(["list", "list", "tuple", "deque"])), items=items)
    if k == "tuple_fixed":
        items = [gen_value(draw, x, ctx, depth + 1) for x in t["items"]]
        if any(x is None for x in items):
            return None
        return V("tuple", items=items)
    if k in ("set", "frozenset"):
        pool = _distinct_pool(t["of"])
        n = draw(st.integers(0, min(3, len(pool))))
        start = draw(st.integers(0, len(pool) - 1))
        items = [pool[(start + i) % len(pool)] for i in range(n)]
        if k == "frozenset":
            return V("frozenset", items=items)
        return V(draw(st.sampled_from(["set", "set", "frozenset", "keysview"])), items=items)
    if k == "map":
        pool = _distinct_pool(t["k"])
        n = draw(st.integers(0, min(3, len(pool))))
        start = draw(st.integers(0, len(pool) - 1))
        items = []
        for i in range(n):
            val = gen_value(draw, t["v"], ctx, depth + 1)
            if val is None:
                break
            items.append([pool[(start + i) % len(pool)], val])
        return V(draw(st.sampled_from(["dict", "dict", "odict", "mproxy"])), items=items)
    if k == "union":
        order = draw(st.permutations(range(len(t["alts"]))))
        for i in order:
            x = gen_value(draw, t["alts"][i], ctx, depth + 1)
            if x is not None:
                return x
        return None
    if k == "optional":
        if draw(st.booleans()):
            x = gen_value(draw, t["of"], ctx, depth + 1)
            if x is not None:
                return x
        return V("none")
    if k == "alias":
        return gen_value(draw, t["of"], ctx, depth)
    if k == "alias_param":
        return gen_value(draw, t["body"], {**ctx, "var": t["arg"]}, depth)
    raise ValueError(k)


WRONG_POOL = [
    V("int", x=7), V("str", x="zz"), V("none"), V("obj"), V("float", x=2.5), V("bytes", x="b"), V("list", items=[]),
    V("list", items=[V("str", x="q")]), V("dict", items=[]), V("tuple", items=[V("int", x=1)]), V("bool", x=True),
    V("enum", e="Color", m="RED"), V("state", s="Inner", f={"v": V("int", x=1)}), V("impl"), V("notimpl"), V("maybeimpl", ok=False), V("maybeimpl", ok=True),
    V("gbox", arg="str", val=V("str", x="g"), items=[]), V("set", items=[V("int", x=1)]),
    V("dict", items=[[V("obj"), V("obj")]]), V("list", items=[V("obj")]), V("missing"),
    # mappings that merely SPELL a nested state's attributes are not instances of it
    V("dict", items=[[V("str", x="v"), V("int", x=1)]]), V("dict", items=[[V("str", x="val"), V("int", x=1)]]),
    V("dict", items=[[V("str", x="v"), V("int", x=1)], [V("str", x="w"), V("str", x="w")]]),
]  # fmt: skip


def definitely_wrong(draw, t, ctx, env_for_oracle, top: bool):
    """a value AST that definitely does not conform to t (None if no such value exists, e.g. for Any)"""
    cands = []
    for w in WRONG_POOL:
        if top and w["v"] == "missing":
            continue  # MISSING as a constructor argument means "not supplied"
        try:
            obj = build(w, env_for_oracle)
        except Exception:  # noqa: BLE001
            continue
        if conforms(t, obj, env_for_oracle) is False:
            cands.append(w)
    if not cands:
        return None
    return draw(st.sampled_from(cands))


def gen_broken(draw, t, ctx, env_for_oracle, depth=0, top=True):
    """value AST that is broken (definitely non-conforming) at one generated position; returns (value, path_depth)
    or None if the term cannot be broken (Any)."""
    k = t["t"]
    inner_possible = k in ("seq", "tuple_var", "tuple_fixed", "map", "alias", "alias_param", "optional", "generic") or (
        k == "state" and t["s"] == "Node"
    )
    go_inner = inner_possible and depth < 3 and draw(st.integers(0, 3)) > 0
    if go_inner:
        if k == "alias":
            return gen_broken(draw, t["of"], ctx, env_for_oracle, depth, top)
        if k == "alias_param":
            env2 = env_for_oracle.with_var(t["arg"])
            return gen_broken(draw, t["body"], {**ctx, "var": t["arg"]}, env2, depth, top)
        if k == "optional":
            r = gen_broken(draw, t["of"], ctx, env_for_oracle, depth, top)
            if r is not None:
                try:
                    obj = build(r[0], env_for_oracle)
                except Exception:  # noqa: BLE001 - e.g. Self instances cannot be built before the class exists
                    return None
                if conforms(t, obj, env_for_oracle) is False:
                    return r
            return None
        if k in ("seq", "tuple_var"):
            r = gen_broken(draw, t["of"], ctx, env_for_oracle, depth + 1, False)
            if r is not None:
                good = [gen_value(draw, t["of"], ctx, depth + 1) for _ in range(draw(st.integers(0, 2)))]
                if all(g is not None for g in good):
                    pos = draw(st.integers(0, len(good)))
                    items = good[:pos] + [r[0]] + good[pos:]
                    return V("tuple" if k == "tuple_var" else draw(st.sampled_from(["list", "tuple"])), items=items), r[1] + 1
        if k == "tuple_fixed":
            i = draw(st.integers(0, len(t["items"]) - 1))
            wrong_length = draw(st.integers(0, 2)) == 0
            r = None if wrong_length else gen_broken(draw, t["items"][i], ctx, env_for_oracle, depth + 1, False)
            if r is not None:
                items = [gen_value(draw, x, ctx, depth + 1) for x in t["items"]]
                if all(g is not None for g in items):
                    items[i] = r[0]
                    return V("tuple", items=items), r[1] + 1
            # wrong length is also a definite break
            items = [gen_value(draw, x, ctx, depth + 1) for x in t["items"]]
            if all(g is not None for g in items):
                if len(items) > 1 and draw(st.booleans()):
                    return V("tuple", items=items[:-1]), 1
                return V("tuple", items=items + [items[0]]), 1
        if k == "map":
            r = gen_broken(draw, t["v"], ctx, env_for_oracle, depth + 1, False)
            if r is not None:
                pool = _distinct_pool(t["k"])
                items = [[pool[0], r[0]]]
                if len(pool) > 1 and draw(st.booleans()):
                    g = gen_value(draw, t["v"], ctx, depth + 1)
                    if g is not None:
                        items.insert(draw(st.integers(0, 1)), [pool[1], g])
                return V("dict", items=items), r[1] + 1
            return V("dict", items=[[V("obj"), V("int", x=1)]]), 1
        if k == "generic":
            arg = t["arg"] if t["arg"] != "T" else (ctx.get("targ") or "int")
            other = "str" if arg != "str" else "int"
            return V("gbox", arg=other, val=gen_value(draw, _targ_term(other), ctx, depth + 1), items=[]), 1
        if k == "state":
            return V("state", s="Inner", f={"v": V("int", x=1)}), 0
    w = definitely_wrong(draw, t, ctx, env_for_oracle, top)
    if w is None:
        return None
    return w, 0
