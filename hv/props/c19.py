"""C19 - context log lines go to the scope's logger, tagged with an inherited trace id.

Case: {"body": [Op]} - scope tree (hv.progs) where nodes optionally carry their own Logger and/or trace id and have
arbitrary names; log ops of every level with %-style arguments at every position, also outside any scope and in
spawned tasks."""

from __future__ import annotations

import logging

from hypothesis import strategies as st

from hv import progs as P
from hv.core import Outcome

PID = "C19"
LEVEL = "exploration"
TECHNIQUE = "generated scope trees with per-node logger / trace-id overrides and arbitrary names x generated %-format log calls; reference walk of the tree decides logger, tag and text of every captured record"
RULE = (
    "cases are scope trees (<=6 nodes, some bodies in spawned tasks), each node optionally with its own Logger and/or "
    "trace id, names drawn from text biased towards '', '%', '%s', '%d %(x)s', dots and spaces; log operations of "
    "levels debug/info/warning/error with messages built from literal / %s / %d / %r segments (format and arguments "
    "agree by construction), optional exception, at every position incl. outside any scope; each log line carries a "
    "unique token; non-trivial = a nested node overriding logger or trace id, or >=2 levels of inheritance, together "
    "with a log op with arguments, or a scope name containing '%'; distinct = distinct program"
)
RULE += '; programs may re-seed the global random generator; identifiers of all scopes of a case must be pairwise distinct'
RULE += '; records must pass through the Logger object given to the scope; further outermost scopes after the first tree was released'
RULE += '; child loggers of the outermost scope names exist beforehand; UUID-spelled own trace ids'
RULE += '; cases with the root logger at WARNING and verbose scope loggers'
RULE += '; cases without any logging handler (records must reach the handler of last resort)'
LEVEL_TEXT = (
    "Reference walk: for every log call exactly one record must be captured, on the expected logger (own, else nearest "
    "enclosing, else the one named after the outermost scope; root logger outside any scope) and no other, at the "
    "requested level, with the given exception, whose rendered message contains the scope's trace id, name and "
    "identifier and ends with fmt % args. Trace ids: own if given, else the enclosing scope's, else fresh."
)
LEVEL_NOTE = "Trusted: logging capture handlers (root logger level forced to DEBUG for the case); scope identifiers read from ScopeMetrics in completion callbacks."
ASSUMPTIONS = [
    "the textual layout of the tag is not fixed: containment of trace id / name / identifier plus the exact message suffix",
    "an explicitly empty trace id '' counts as 'not given'",
]
REQUIRED_CLASSES = ["override-logger", "override-trace", "inherit-2-levels", "percent-in-name", "args", "mapping-argument", "outside-any-scope", "spawned-task", "format-and-arguments-disagree"]

SINK: list = []
_HANDLER = P.Capture(SINK)
_LAST = P.Capture(SINK)
_LAST.setLevel(logging.WARNING)  # as logging.lastResort


class LogRun(P.Run):
    retain_metrics = False  # identifiers are read in the completion callback; a finished tree is really gone afterwards

    def __init__(self, prog, loop):
        super().__init__(prog, loop)
        self.handler = None if prog.get("unconfigured") else _HANDLER


def run_case(case) -> Outcome:
    out = Outcome()
    if any(o.get("k") == "gc" for _, o in P.walk_blocks(case["body"])):
        from hv.props.c03 import _gc_fence

        _gc_fence()  # keeps the collections inside this case cheap
    # somebody in the process has asked for a CHILD logger of every outermost scope's name (`getLogger("svc.database")` while
    # the scope is called "svc"): the logging registry then holds a placeholder under the scope's own name
    for op in case["body"]:
        if op.get("k") == "scope" and op.get("name") and not op["name"].endswith(".") and "\x00" not in op["name"]:
            logging.getLogger(op["name"] + ".hvchild")
    root = logging.getLogger()
    old_level = root.level
    root.setLevel(logging.WARNING if (case.get("root_warning") or case.get("unconfigured")) else logging.DEBUG)
    # "unconfigured": the program never configured logging - NO handler anywhere. Python's logging then hands WARNING and above
    # to its handler of last resort (stderr): that is where those lines must arrive
    saved_handlers, saved_last = root.handlers[:], logging.lastResort
    if case.get("unconfigured"):
        root.handlers.clear()
        logging.lastResort = _LAST
    else:
        root.addHandler(_HANDLER)
    del SINK[:]
    try:
        run, res = P.execute(case, run_cls=LogRun)
    finally:
        if case.get("unconfigured"):
            logging.lastResort = saved_last
            root.handlers[:] = saved_handlers
        else:
            root.removeHandler(_HANDLER)
        root.setLevel(old_level)
    records = list(SINK)
    del SINK[:]
    if res["outcome"] != "return":
        out.violate("run", f"C19.run/program-failed/{res['outcome']}", repr(res["exc"]))
        return out
    log = run.log
    classes = set()
    scopes = {tuple(e["path"]): e for e in log if e["ev"] == "block_enter" and e["kind"] == "scope"}
    ops = {p: op for p, op in P.walk_blocks(case["body"])}
    ident = {tuple(e["path"]): e.get("ident") for e in log if e["ev"] == "completion"}

    def lineage(p):
        return sorted([q for q in scopes if len(q) < len(p) and p[: len(q)] == q], key=len)

    def expected_logger(p):
        chain = [*lineage(p), p]
        for q in reversed(chain):
            if ops[q].get("logger"):
                return f"hv.{'.'.join(map(str, q))}"
        name = ops[chain[0]]["name"]
        return name if name else "root"

    # trace ids
    for p in scopes:
        idn = ident.get(p)
        if idn is None:
            out.violate("tag", "C19.tag/scope-never-completed", str(p))
            continue
        anc = lineage(p)
        own = ops[p].get("trace")
        if own:
            classes.add("override-trace")
            if idn[0] != own:
                out.violate("trace", "C19.trace/own-trace-id-not-used", f"{p}: {idn[0]!r} vs {own!r}")
        elif anc:
            pid = ident.get(anc[-1])
            if pid is not None and idn[0] != pid[0]:
                out.violate("trace", "C19.trace/nested-scope-does-not-inherit-trace-id", f"scope {p} has {idn[0]!r}, enclosing {anc[-1]} has {pid[0]!r}")
            if len(anc) >= 2 and not ops[anc[-1]].get("trace"):
                classes.add("inherit-2-levels")
        else:
            if not isinstance(idn[0], str) or not idn[0]:
                out.violate("trace", "C19.trace/root-without-fresh-id", f"{p}: {idn[0]!r}")
        if ops[p].get("logger") and anc:
            classes.add("override-logger")
        if "%" in ops[p]["name"]:
            classes.add("percent-in-name")
    # identifiers are unique, fresh trace ids are fresh - also when the program re-seeds the global random generator
    seen_ids: dict = {}
    for p in scopes:
        idn = ident.get(p)
        if idn is None:
            continue
        if idn[2] in seen_ids:
            out.violate("tag", "C19.tag/identifier-not-unique", f"scopes {seen_ids[idn[2]]} and {p} share the identifier {idn[2]!r}")
        seen_ids[idn[2]] = p
        if not lineage(p) and not ops[p].get("trace") and idn[0] == idn[2]:
            out.violate("trace", "C19.trace/fresh-trace-id-equals-an-identifier", f"{p}: {idn[0]!r}")
    if any(o.get("k") == "reseed" for _, o in P.walk_blocks(case["body"])):
        classes.add("program-reseeds-the-global-random-generator")
    # log lines
    rendered = []
    for r in records:
        try:
            rendered.append((r, r.getMessage(), None))
        except Exception as exc:  # noqa: BLE001 - a record that cannot be rendered is a lost message
            rendered.append((r, str(r.msg), exc))
    for e in log:
        if e["ev"] != "logop":
            continue
        token = e["token"]
        ms = e["mscope"]
        where = "outside" if ms is None else "inside"
        if e["args"]:
            classes.add("args")
        if ms is None:
            classes.add("outside-any-scope")
        if "t" in tuple(e["path"]):
            classes.add("spawned-task")
        if e["raised"] is not None:
            out.violate("noraise", f"C19.noraise/log-call-raised/{where}{'/format-and-arguments-disagree' if e.get('bad') else ''}", repr(e["raised"]))
            continue
        if e.get("bad"):
            # format and arguments disagree: the call must not raise; whether / how the line appears is not specified
            classes.add("format-and-arguments-disagree")
            continue
        mine = [(r, msg, err) for r, msg, err in rendered if token in msg]
        pct = ms is not None and any("%" in ops[q]["name"] for q in [*lineage(tuple(ms)), tuple(ms)])
        if case.get("root_warning") and e["level"] in ("debug", "info") and len(mine) == 0:
            # the application keeps the ROOT logger at WARNING: a message below that which goes through a logger of the
            # registry (no logger of its own up the chain, or outside any scope) is dropped by the logging configuration, not by
            # the library. A scope that was given its own, more verbose Logger object must still get its DEBUG / INFO lines.
            own = ms is not None and any(ops[q].get("logger") for q in [*lineage(tuple(ms)), tuple(ms)])
            if not own:
                continue
        if case.get("unconfigured") and e["level"] in ("debug", "info") and len(mine) == 0:
            continue  # below the last-resort handler's level: dropped by (the absence of) the logging configuration
        if len(mine) == 0:
            out.violate("lost", f"C19.lost/no-record/{where}{'/no-handler-configured' if case.get('unconfigured') else ''}", f"token {token} level {e['level']}")
            continue
        if len(mine) > 1:
            names = sorted({r.name for r, _, _ in mine})
            out.violate("logger", f"C19.logger/emitted-{len(mine)}-times", f"{token} on {names}")
            continue
        r, msg, err = mine[0]
        expected_text = P.log_text(e["fmt"], e["args"])
        if e["args"] and isinstance(e["args"][0], dict):
            classes.add("mapping-argument")
        if err is not None:
            out.violate(
                "lost",
                f"C19.lost/message-cannot-be-formatted/{'percent-in-scope-name' if pct else 'plain-name'}/{'args' if e['args'] else 'noargs'}",
                f"{err!r}: msg={r.msg!r} args={r.args!r}",
            )
            continue
        levelno = {"debug": logging.DEBUG, "info": logging.INFO, "warning": logging.WARNING, "error": logging.ERROR}[e["level"]]
        if r.levelno != levelno:
            out.violate("level", f"C19.level/wrong-level/{e['level']}", f"{r.levelno}")
        want_exc = e["exc"]
        got_exc = r.exc_info[1] if r.exc_info else None
        if got_exc is not want_exc:
            out.violate("exc", f"C19.exc/exception-not-attached/{e['level']}", f"{got_exc!r} vs {want_exc!r}")
        if ms is None:
            if r.name != "root":
                out.violate("logger", "C19.logger/outside-not-on-root", r.name)
            if msg != expected_text:
                out.violate("text", "C19.text/outside-message-altered", f"{msg!r} vs {expected_text!r}")
            continue
        ms = tuple(ms)
        exp_logger = expected_logger(ms)
        if r.name != exp_logger:
            out.violate("logger", "C19.logger/wrong-logger", f"log in scope {ms} went to {r.name!r}, expected {exp_logger!r}")
        else:
            # ... and through the very Logger OBJECT that was given (objects, not names, are what a scope is handed)
            owner = next((q for q in reversed([*lineage(ms), ms]) if ops[q].get("logger")), None)
            if getattr(r, "hv_logger_path", None) != owner:
                out.violate(
                    "logger",
                    "C19.logger/another-logger-object-of-the-same-name",
                    f"log in scope {ms}: the record did not pass through the logger object given to scope {owner} (passed through: {getattr(r, 'hv_logger_path', None)})",
                )
        idn = ident.get(ms)
        if idn is not None:
            trace_id, label, identifier = idn
            for what, val in (("trace-id", trace_id), ("identifier", identifier), ("name", label)):
                if val and str(val) not in msg:
                    out.violate("tag", f"C19.tag/missing-{what}", f"{msg!r} lacks {val!r}")
        if not msg.endswith(expected_text):
            out.violate(
                "text",
                f"C19.text/message-altered/{'percent-in-scope-name' if pct else 'plain-name'}/{'args' if e['args'] else 'noargs'}",
                f"{msg!r} does not end with {expected_text!r}",
            )
    out.classes = sorted(classes)
    out.nontrivial = ("args" in classes and bool(classes & {"override-logger", "override-trace", "inherit-2-levels"})) or "percent-in-name" in classes
    return out


def strategy(tier):
    names = st.one_of(
        st.sampled_from(["", "%", "%s", "%d %(x)s", "a.b", "with space", "100%", "svc", "svc", "x"]),
        st.text(max_size=6),
        # long names (module paths, URLs, request descriptions): the tag must carry the whole name
        st.sampled_from(["x" * 33, "service.component.subcomponent.handler:operation", "GET /api/v1/tenants/1234/items?limit=50&order=desc {" + "y" * 40 + "}"]),
        st.text(alphabet="abcXYZ09 ._-/%{}", min_size=30, max_size=90),
    )
    val = st.one_of(st.integers(-5, 5), st.text(max_size=4), st.none(), st.just("%s"), st.just(3.5))
    seg = st.one_of(
        st.tuples(st.just("lit"), st.sampled_from(["hello", "100%", "%", "a b", "", "%s"])),
        st.tuples(st.just("s"), val),
        st.tuples(st.just("d"), st.integers(-9, 99)),
        st.tuples(st.just("r"), val),
    ).map(list)
    logop = st.builds(
        lambda lv, f, x, m, bad: {"k": "log", "level": lv, "fmt": f, "exc": x, "mapping": m, "bad": bad},
        st.sampled_from(["debug", "info", "warning", "error"]),
        st.lists(seg, min_size=0, max_size=4),
        st.booleans(),
        st.sampled_from([False, False, False, True]),  # arguments as ONE mapping with %(name)s keys
        # a call whose format and arguments DISAGREE (a programming error of the caller): it must still not raise
        st.sampled_from([None] * 7 + ["few", "many", "type", "str_raises"]),
    )
    sleep = st.builds(lambda t: {"k": "sleep", "t": t}, st.sampled_from([0.25, 0.5]))
    reseed = st.just({"k": "reseed", "n": 7})
    # own trace ids are opaque strings - also ones that happen to be spelled like a UUID (upper case, dashed, urn form)
    trace = st.one_of(st.none(), st.none(), st.sampled_from(["t-1", "trace%s", "", "T2", "6F9619FF-8B86-D011-B42D-00C04FC964FF", "urn:uuid:6f9619ff-8b86-d011-b42d-00c04fc964ff", "{6F9619FF8B86D011B42D00C04FC964FF}"]))

    def blocks(children):
        spawn = st.builds(lambda b: {"k": "spawn", "via": "ctx", "body": b}, st.lists(st.one_of(logop, sleep, children), min_size=1, max_size=3))
        body = st.lists(st.one_of(logop, logop, logop, logop, spawn, spawn, children, children, reseed), min_size=1, max_size=4)
        a_scope = st.builds(
            lambda n, lg, tr, b: {"k": "scope", "mode": "async", "name": n, "state": [], "disp": None, "disp_obj": False, "logger": lg, "trace": tr, "completion": "sync", "body": b},
            names, st.sampled_from([False, True, True, "late"]), trace, body,
        )  # fmt: skip
        s_scope = st.builds(
            lambda n, lg, tr, b: {"k": "scope", "mode": "sync", "name": n, "state": [], "disp": None, "logger": lg, "trace": tr, "completion": "sync", "body": b},
            names, st.sampled_from([False, True, True, "late"]), trace, body,
        )  # fmt: skip
        return st.one_of(a_scope, a_scope, s_scope)

    block = st.recursive(blocks(logop), blocks, max_leaves=6)
    one_tree = st.builds(
        lambda pre, n, lg, tr, b, post: {"body": [*pre, {"k": "scope", "mode": "async", "name": n, "state": [], "disp": None, "disp_obj": False, "logger": lg, "trace": tr, "completion": "sync", "body": b}, *post]},
        st.lists(logop, max_size=1), names, st.sampled_from([False, False, True, "late"]), trace,
        st.lists(st.one_of(logop, block, block), min_size=1, max_size=4), st.lists(logop, max_size=1),
    )  # fmt: skip

    def then_more_trees(first):
        # further outermost scopes AFTER the first tree has completed and been released (a server handling the next request):
        # fresh trace ids again, identifiers still unique in the process
        def tree(i):
            leaf = {"k": "scope", "mode": "sync", "name": f"later{i}", "state": [], "disp": None, "logger": False, "trace": None, "completion": "sync", "body": [first["body"][-1] if first["body"][-1]["k"] == "log" else {"k": "yield"}]}
            return {"k": "scope", "mode": "async", "name": f"next{i}", "state": [], "disp": None, "disp_obj": False, "logger": False, "trace": None, "completion": "sync", "body": [leaf, dict(leaf, name=f"later{i}b")]}

        return {"body": [*first["body"], {"k": "yield"}, {"k": "gc"}, tree(1), {"k": "yield"}, {"k": "gc"}, tree(2)]}

    quiet_root = one_tree.map(lambda c: {**c, "root_warning": True})
    unconfigured = one_tree.map(lambda c: {**c, "unconfigured": True})
    return st.one_of(one_tree, one_tree, one_tree, quiet_root, one_tree.map(then_more_trees), unconfigured)


def budget(tier):
    return {"examples": 600, "shards": 1} if tier == "quick" else {"examples": 8000, "shards": 16}
