"""C11 - context streams run in their creation context and leave the consumer's intact.

Case: {"items": n, "end": "stop"|"raise", "gen_nested": bool, "gen_record": bool, "nested_stream": bool,
       "create_in": "X"|"none", "consume": "same"|"other_scope"|"outside"|"other_task"|"split_tasks",
       "mode": "full"|"break"|"abandon"|"close_unstarted", "break_after": j}"""

from __future__ import annotations

import asyncio
import gc
import logging

from hypothesis import strategies as st

from haiway import ctx
from hv import env, vloop
from hv import progs as P
from hv.core import Outcome
from hv.props.c03 import _gc_fence

P.scope_log_shapes()  # learned once, before any case runs

PID = "C11"
LEVEL = "exploration"
TECHNIQUE = "generated generator scripts x creation/consumption placements x termination modes on the virtual loop; reference creation environment and consumer fingerprint invariant"
RULE = (
    "cases are generator scripts (0-4 items ending normally or with an exception; probing state, entering nested scopes, "
    "recording metrics, nesting another stream between items) created inside a scope or outside any, consumed in the "
    "same scope / a different scope with different state / outside any scope / another task / split across two tasks, "
    "fully, with early break + aclose(), abandoned (dropped + gc) or closed before the first item; non-trivial = "
    "creation context differs from consumption context, or early termination, or a nested stream; distinct = distinct case"
)
RULE += '; items may be None / falsy values; a quarter of the cases run a garbage collection before every pull'
RULE += '; a second stream of a same-named generator may be created in the same scope and exhausted first'
RULE += "; the streamed generator receives keyword arguments named like a wrapper's own parameters"
RULE += "; the second stream's source may be a partial / a callable object"
RULE += '; source generators ending with unusual exceptions (attribute-rejecting, unrenderable, message-less, falsy)'
RULE += '; awaitable items; a generator ending with an exception group of one member'
LEVEL_TEXT = (
    "Four sub-claims per generated case: (a) the consumer receives exactly the items then the generator's end or its "
    "exception object; (b) probes inside the generator equal the creation environment; (c) the consumer's context "
    "fingerprint between items and afterwards equals the one before the first item; (d) the stream's scope has "
    "completed once the stream is exhausted or closed and nothing was reported to the loop exception handler. "
    "Sub-claims the pinned tree breaks by design of ctx.stream are listed as known findings by signature."
)
LEVEL_NOTE = (
    "Trusted: virtual loop; grey-box metrics/task-group identity; abandonment relies on CPython's async-generator "
    "finaliser driven by gc.collect() + loop drain."
)
ASSUMPTIONS = [
    "for abandoned streams no assertion is made about WHEN before gc + drain the scope completes",
    "nested scopes / updates entered by the generator may span a yield (gen_span); streams nested in streams are consumed inside the outer generator",
]
REQUIRED_CLASSES = ["creation!=consumption", "early-termination", "nested-stream", "generator-raises", "other-task"]


class GenErr(Exception):
    pass


class Ctx:
    """bookkeeping for one case"""

    def __init__(self):
        self.labels = {}
        self.sent = P.sentinels()
        for n, s in self.sent.items():
            self.labels[id(s)] = ("sentinel", n)
        self.keep = []
        self.mv = P._grey("haiway.context.metrics", "MetricsContext")
        self.gv = P._grey("haiway.context.tasks", "TaskGroupContext")

    def state(self, name, v):
        s = P.make_state({"type": name, "v": v})
        self.keep.append(s)
        self.labels[id(s)] = (name, v)
        return s

    def fp(self):
        stt = {}
        for n, T in (("A", P.A), ("B", P.B)):
            try:
                x = ctx.state(T, default=self.sent[n])
                stt[n] = self.labels.get(id(x), ("unknown", repr(x)))
            except Exception as exc:  # noqa: BLE001
                stt[n] = type(exc).__name__
        # "unset" and "set to None" are different states of a context variable
        m = self.mv.get("unset") if self.mv is not None else "n/a"
        g = self.gv.get("unset") if self.gv is not None else "n/a"
        return {"state": stt, "metrics": m if (m is None or isinstance(m, str)) else id(m), "group": g if (g is None or isinstance(g, str)) else id(g)}


_FALSY_ITEMS = [None, 0, "", (), False]


class AwItem:
    """an item that happens to be AWAITABLE (a ticket, a lazy result, a future-like handle): an item like any other - it is
    handed to the consumer as it is, nobody awaits it on the way"""

    def __init__(self, tag, i):
        self.key = (tag, i)

    def __eq__(self, other):
        return isinstance(other, AwItem) and other.key == self.key

    def __hash__(self):
        return hash(self.key)

    def __repr__(self):
        return f"AwItem{self.key}"

    def __await__(self):
        return ("awaited", *self.key)
        yield  # pragma: no cover - makes this a generator, as __await__ must return an iterator


def _item(tag, i, case):
    """the i-th item of the stream: usually a tagged tuple; with "falsy_items" every second item is a falsy value or None
    (items are values, none of them is a sentinel)"""
    if case.get("awaitable_items") and i % 2 == 0:
        return AwItem(tag, i)
    if case.get("falsy_items") and i % 2 == 1:
        return _FALSY_ITEMS[(i // 2) % len(_FALSY_ITEMS)]
    return (tag, i)


# keyword arguments of the streamed generator with names a wrapper might want for itself
_GEN_KWARGS = [
    {},
    {"name": "n", "label": "l"},
    {"source": 1, "scope": 2, "state": 3},
    {"completion": None, "logger": "lg", "trace_id": "t", "disposables": ()},
    {"self": 0, "cls": 1, "args": (1,), "kwargs": {"k": 1}},
]


def run_case(case) -> Outcome:  # noqa: C901, PLR0912, PLR0915
    out = Outcome()
    n, end, consume, mode = case["items"], case["end"], case["consume"], case["mode"]
    create_in = case["create_in"]
    if create_in == "none" and consume in ("other_scope",):
        consume = "same"
    if consume == "split_tasks" and mode != "full":
        consume = "other_task"
    K = Ctx()
    if case.get("gc_mid"):
        _gc_fence()  # keeps the collections inside this case cheap
    obs = {"gen_probes": [], "got": [], "end": None, "cons_fps": [], "events": [], "err": None}
    captured: list = []
    handler = P.Capture(captured)
    root = logging.getLogger()
    old_level = root.level
    unraisable_before = len(env.unraisable())
    # the generator's own exception may be an unusual one (nothing can be attached to it, it cannot be rendered, it has no
    # message, its instances are falsy): the consumer gets that very object all the same
    gen_err = {None: GenErr, "frozen": P.ProgFrozen, "strraises": P.ProgStrRaises, "empty": P.ProgEmpty, "falsy": P.ProgFalsy}[case.get("err_kind") if case.get("err_kind") != "group1" else None]("gen")
    if case.get("err_kind") == "group1":
        gen_err = ExceptionGroup("the generator's own group of one", [GenErr("member")])  # a group is an exception like any other

    async def main(loop):
        def x_completed(metrics):
            obs["events"].append("X_completed")
            if obs["end"] is None:
                obs["events"].append("X_completed@before-stream-end")

        async def _twin():
            # a SECOND stream created in the same scope from a generator function of the same name (two streams of one
            # helper): each has its own scope, exhausting one says nothing about the other
            yield ("twin", 0)
            yield ("twin", 1)

        _twin.__name__ = _twin.__qualname__ = "gen"

        class _TwinSource:
            """a callable OBJECT as the stream's source (no __name__, no func attribute)"""

            def __call__(self):
                return _twin()

        def twin_source():
            kind = case.get("twin")
            if kind == "partial":
                import functools

                return functools.partial(_twin)
            if kind == "object":
                return _TwinSource()
            if kind == "partial_object":
                import functools

                return functools.partial(_TwinSource())
            return _twin

        async def drain_twin():
            if "s2" in holder and "twin" not in obs:
                obs["twin"] = []
                try:
                    async for x in holder["s2"]:
                        obs["twin"].append(x)
                except BaseException as exc:  # noqa: BLE001 - the observation
                    if isinstance(exc, asyncio.CancelledError):
                        raise
                    obs["twin"].append(("raised", repr(exc)))

        async def inner_gen():
            yield "n0"
            yield "n1"

        async def gen(tag, **kw):
            obs["gen_kwargs"] = kw  # keyword arguments belong to the generator, whatever they are called
            for i in range(n):
                obs["gen_probes"].append((i, K.fp()["state"]))
                if case.get("gen_nested"):
                    with ctx.scope("gnested", K.state("A", 70 + i)):
                        obs["gen_probes"].append((f"{i}-nested", K.fp()["state"]))
                if case.get("gen_record"):
                    ctx.record(P.MA(ids=(i,)))
                if case.get("nested_stream") and i == 0:
                    async for x in ctx.stream(inner_gen):
                        obs["events"].append(("inner", x))
                if case.get("gen_suspends"):
                    await asyncio.sleep(0.5)
                if case.get("gen_span"):
                    # the generator's own block SPANS the yield (legal): it must be gone again once the stream is over
                    with ctx.updated(K.state("A", 80 + i)):
                        yield _item(tag, i, case)
                else:
                    yield _item(tag, i, case)
            obs["gen_probes"].append(("end", K.fp()["state"]))
            if end == "raise":
                raise gen_err

        async def consume_items(it, limit=None, fps=True):
            """pull items until the end or `limit` items; returns True if the stream ended"""
            while True:
                if limit is not None and limit <= 0:
                    return False
                if case.get("gc_mid"):
                    gc.collect()
                try:
                    item = await it.__anext__()
                except StopAsyncIteration:
                    obs["end"] = "stop"
                    return True
                except (GenErr, P.ProgErr, ExceptionGroup) as exc:
                    obs["end"] = ("raise", exc)
                    return True
                obs["got"].append(item)
                if fps:
                    obs["cons_fps"].append(("between", K.fp(), obs.get("base")))
                if limit is not None:
                    limit -= 1

        async def consumer(stream, second_half=False):
            obs.setdefault("fp0", K.fp())
            obs["base"] = K.fp()  # every consuming task is compared with its own view before it touched the stream
            obs["fp0_last_consumer"] = obs["base"]
            try:
                if mode == "close_unstarted":
                    await stream.aclose()
                    obs["end"] = "closed"
                elif mode == "full":
                    await consume_items(stream)
                elif mode == "break":
                    ended = await consume_items(stream, case["break_after"])
                    if not ended:
                        await stream.aclose()
                        obs["end"] = "closed"
                elif mode == "abandon":
                    ended = await consume_items(stream, case["break_after"])
                    if not ended:
                        obs["end"] = "abandoned"
                elif mode == "timeout":
                    # the consumer is cancelled (asyncio.timeout) while the generator is suspended mid-item and survives
                    try:
                        async with asyncio.timeout(0.75):
                            await consume_items(stream)
                    except TimeoutError:
                        obs["end"] = "timed_out"
                    try:
                        t = ctx.spawn(asyncio.sleep, 0)  # the consumer's own task group must still be usable
                        await t
                    except Exception as exc:  # noqa: BLE001
                        obs["spawn_after"] = repr(exc)
            except BaseException as exc:  # noqa: BLE001 - anything else escaping the stream is an observation for (a)
                if isinstance(exc, asyncio.CancelledError):
                    raise
                obs["err"] = exc
            obs["cons_fps"].append(("after", K.fp(), obs.get("base")))

        async def run_consumer(stream):
            await drain_twin()  # the stream created LATER is exhausted first
            if consume in ("same", "other_scope", "outside"):
                await consumer(stream)
            elif consume == "other_task":
                if case.get("swallowed_cancel"):
                    # the consuming task absorbed a cancellation request earlier (graceful shutdown code that still drains
                    # a stream): Task.cancelling() stays > 0, which must not change what the stream delivers
                    async def drained_after_cancel():
                        asyncio.current_task().cancel()
                        try:
                            await asyncio.sleep(0)
                        except asyncio.CancelledError:
                            pass
                        await consumer(stream)

                    await loop.create_task(drained_after_cancel())
                else:
                    await loop.create_task(consumer(stream))
            else:  # split_tasks: first task takes one item, a second task the rest
                async def first():
                    obs.setdefault("fp0", K.fp())
                    obs["base"] = K.fp()
                    try:
                        await consume_items(stream, 1)
                    except BaseException as exc:  # noqa: BLE001
                        obs["err"] = exc

                await loop.create_task(first())
                if obs["end"] is None and obs["err"] is None:
                    # the task that finishes the stream lives in yet another scope with its own state
                    async def second():
                        async with ctx.scope("Z", K.state("A", 3), K.state("B", 3)):
                            await consumer(stream)
                            obs["second_after"] = K.fp()

                    await loop.create_task(second())
                else:
                    obs["cons_fps"].append(("after", K.fp(), obs.get("base")))

        holder = {}
        if create_in == "XX":
            # created two scope levels deep and (for 'outside') consumed after BOTH were left: the root must not
            # complete before the stream's scope has
            def root_completed(metrics):
                obs["events"].append("root_completed@" + ("after-stream" if obs["end"] is not None else "before-stream-end"))

            async with ctx.scope("root", completion=root_completed):
                async with ctx.scope("X", K.state("A", 1), completion=x_completed):
                    holder["creation_fp"] = K.fp()["state"]
                    holder["s"] = ctx.stream(gen, "s", **_GEN_KWARGS[case.get("gen_kwargs", 0) % len(_GEN_KWARGS)])
                    if case.get("twin"):
                        holder["s2"] = ctx.stream(twin_source())
                    if consume == "same":
                        await run_consumer(holder["s"])
                    elif consume != "outside":
                        async with ctx.scope("Y", K.state("A", 2)):
                            await run_consumer(holder["s"])
            if consume == "outside":
                await run_consumer(holder["s"])
        elif create_in == "X":
            async with ctx.scope("X", K.state("A", 1), completion=x_completed):
                holder["creation_fp"] = K.fp()["state"]
                holder["s"] = ctx.stream(gen, "s", **_GEN_KWARGS[case.get("gen_kwargs", 0) % len(_GEN_KWARGS)])
                if case.get("twin"):
                    holder["s2"] = ctx.stream(twin_source())
                if consume == "same":
                    await run_consumer(holder["s"])
                elif consume == "other_scope":
                    async with ctx.scope("Y", K.state("A", 2), K.state("B", 2)):
                        await run_consumer(holder["s"])
                elif consume in ("other_task", "split_tasks"):
                    async with ctx.scope("Y", K.state("A", 2)):
                        await run_consumer(holder["s"])
            if consume == "outside":
                await run_consumer(holder["s"])
        else:
            holder["creation_fp"] = {"A": ("sentinel", "A"), "B": ("sentinel", "B")}
            holder["s"] = ctx.stream(gen, "s", **_GEN_KWARGS[case.get("gen_kwargs", 0) % len(_GEN_KWARGS)])
            await run_consumer(holder["s"])
        if mode == "abandon" and obs["end"] == "abandoned":
            del holder["s"]
            gc.collect()
            await vloop.settle()
            gc.collect()
        await vloop.settle()
        await asyncio.sleep(0.5)
        await vloop.settle()
        obs["creation_fp"] = holder["creation_fp"]
        return None

    root.setLevel(logging.DEBUG)
    root.addHandler(handler)
    try:
        res = vloop.run(main)
    finally:
        root.removeHandler(handler)
        root.setLevel(old_level)
    # finalisers of this case's garbage (e.g. never-completed ScopeMetrics) must be attributed to this case, not a
    # later one: the garbage is young, a generation-1 collection is enough and cheap
    gc.collect(1)
    if res.outcome == "raise":
        raise res.value
    tag = f"{consume}/{mode}"
    if res.outcome == "hang":
        out.violate("a", f"C11.a/hang/{tag}", "")
        return out
    # ---- (a) items and outcome
    want_all = [_item("s", i, case) for i in range(n)]
    if mode == "timeout":
        if case.get("gen_suspends") and n >= 2:
            want, want_end = want_all[:1], "timed_out"
        else:
            want, want_end = want_all, ("stop" if end == "stop" else ("raise", gen_err))
    elif mode == "full":
        want, want_end = want_all, ("stop" if end == "stop" else ("raise", gen_err))
    elif mode == "close_unstarted":
        want, want_end = [], "closed"
    else:
        j = min(case["break_after"], n)
        want = want_all[:j]
        if case["break_after"] > n or (case["break_after"] == n and False):
            want_end = "stop" if end == "stop" else ("raise", gen_err)
        else:
            want_end = "closed" if mode == "break" else "abandoned"
    if obs["err"] is not None:
        out.violate("a", f"C11.a/unexpected-exception/{type(obs['err']).__name__}/{tag}", repr(obs["err"]))
    else:
        if obs["got"] != want:
            what = "item-lost" if len(obs["got"]) < len(want) else "wrong-items"
            out.violate("a", f"C11.a/{what}/{tag}", f"got {obs['got']} expected {want}")
        ge = obs["end"]
        ok_end = ge == want_end or (isinstance(ge, tuple) and isinstance(want_end, tuple) and ge[1] is want_end[1])
        if not ok_end:
            out.violate("a", f"C11.a/wrong-end/{tag}", f"got {ge!r} expected {want_end!r}")
    # ---- (b) generator body sees the creation environment
    for key, stt in obs["gen_probes"]:
        exp = dict(obs["creation_fp"])
        if isinstance(key, str) and key.endswith("-nested"):
            i = int(key.split("-")[0])
            exp["A"] = ("A", 70 + i)
        if stt != exp:
            rel = "creation==consumption" if consume == "same" else "creation!=consumption"
            out.violate("b", f"C11.b/generator-sees-wrong-state/{rel}/{consume}", f"probe {key}: {stt} expected {exp}")
            break
    # ---- (c) consumer context intact
    if obs.get("fp0") is not None:
        reported = set()
        for when, fp, fp0 in obs["cons_fps"]:
            fp0 = fp0 or obs["fp0"]
            if fp["state"] != fp0["state"] and ("state", when) not in reported:
                reported.add(("state", when))
                where = "consumer-outside-any-scope" if fp0["state"].get("A") == "MissingContext" else "consumer-in-scope"
                span = "/gen-spans-yield" if case.get("gen_span") else ""
                out.violate("c", f"C11.c/consumer-state-changed/{when}/{where}/{tag}{span}", f"{fp0['state']} -> {fp['state']}")
            if (fp["metrics"] != fp0["metrics"] or fp["group"] != fp0["group"]) and ("ctx", when) not in reported:
                reported.add(("ctx", when))
                out.violate("c", f"C11.c/consumer-metrics-or-group-changed/{when}/{tag}", f"metrics {fp0['metrics']}->{fp['metrics']} group {fp0['group']}->{fp['group']}")
    if obs.get("spawn_after") is not None:
        out.violate("c", f"C11.c/consumer-task-group-unusable-after-stream/{tag}", obs["spawn_after"])
    # the task that finished a stream started elsewhere must keep ITS OWN state afterwards
    if obs.get("second_after") is not None and obs.get("fp0_last_consumer") is not None:
        if obs["second_after"]["state"] != obs["fp0_last_consumer"]["state"]:
            out.violate("c", f"C11.c/consumer-state-changed/after/finishing-task/{tag}", f"{obs['fp0_last_consumer']['state']} -> {obs['second_after']['state']}")
    # ---- (d) stream scope completed; nothing reported
    # the stream's own scope is observed through the log lines the library writes when a scope is entered / left (their
    # wording is learned from a calibration scope, see progs.scope_log_shapes; None = not observable on this library)
    finished = P.scope_log_lines(captured, "gen", "exit")
    started = P.scope_log_lines(captured, "gen", "enter") or []
    terminal = obs["end"] in ("stop", "closed", "timed_out") or isinstance(obs["end"], tuple) or obs["end"] == "abandoned"
    unstarted = "unstarted" if (not obs["gen_probes"] and mode not in ("full", "timeout")) else "started"
    if terminal and obs["err"] is None:
        want_kw = _GEN_KWARGS[case.get("gen_kwargs", 0) % len(_GEN_KWARGS)]
        if "gen_kwargs" in obs and obs["gen_kwargs"] != want_kw:
            out.violate("a", f"C11.a/generator-arguments-changed/{tag}", f"generator received {obs['gen_kwargs']!r}, stream was given {want_kw!r}")
        twin = 1 if (obs.get("twin") is not None and case.get("twin") in (True, "fn")) else 0  # only then its scope is called "gen"
        if obs.get("twin") is not None and obs["twin"] != [("twin", 0), ("twin", 1)]:
            out.violate("a", f"C11.a/second-stream-of-the-scope-disturbed/{tag}", f"{obs['twin']!r}")
        if obs.get("twin") is not None and mode in ("full", "break") and "X_completed@before-stream-end" in obs["events"]:
            out.violate("d", f"C11.d/creating-scope-completed-before-its-streams-ended/{mode}/{consume}", f"{obs['events']}")
        if finished is not None and len(finished) != 1 + twin:
            out.violate("d", f"C11.d/stream-scope-not-completed/{unstarted}/{mode}/{consume}", f"started={len(started)} finished={len(finished)} end={obs['end']!r}")
        if create_in == "XX" and any(e == "root_completed@before-stream-end" for e in obs["events"] if isinstance(e, str)):
            out.violate("d", f"C11.d/outer-scope-completed-before-stream-scope/{unstarted}/{mode}/{consume}", f"{obs['events']}")
        if create_in in ("X", "XX") and obs["events"].count("X_completed") != 1:
            out.violate("d", f"C11.d/creating-scope-not-completed/{unstarted}/{mode}/{consume}", f"{obs['events']}")
    # errors reported to THIS case's loop are case-local and deterministic. Unraisable errors from finalisers
    # (ScopeMetrics.__del__ of a never-completed scope) depend on when the garbage collector runs and may belong to an
    # earlier case: they are only counted; the never-completed scope itself is judged above.
    errs = [e for e in res.errors]
    unr = env.unraisable()[unraisable_before:]
    if unr:
        out.counts["unraisable_finaliser_errors_seen"] = len(unr)
    if errs:
        msg = "; ".join(f"{e.get('message')}: {e.get('exception')!r}" for e in errs)
        out.violate("d", f"C11.d/errors-reported/{unstarted}/{mode}/{consume}", msg[:500])
    classes = []
    if consume != "same":
        classes.append("creation!=consumption")
    if mode != "full":
        classes.append("early-termination")
    if case.get("nested_stream"):
        classes.append("nested-stream")
    if end == "raise":
        classes.append("generator-raises")
    if case.get("gc_mid"):
        classes.append("gc-between-items")
    if obs.get("twin") is not None:
        classes.append("two-streams-created-in-one-scope")
    if consume in ("other_task", "split_tasks"):
        classes.append("other-task")
    out.classes = classes
    out.nontrivial = bool(set(classes) & {"creation!=consumption", "early-termination", "nested-stream"})
    return out


def strategy(tier):
    return st.builds(
        lambda n, end, gn, gr, ns, ci, co, mo, ba, gs, gsp: {
            "items": n, "end": end, "gen_nested": gn, "gen_record": gr, "nested_stream": ns, "create_in": ci, "consume": co, "mode": mo, "break_after": ba,
            "gen_suspends": gs or mo == "timeout", "gen_span": gsp, "swallowed_cancel": co == "other_task" and ba % 2 == 1,
            "falsy_items": n >= 2 and (n + ba) % 3 == 0,
            # a garbage collection before every pull: a scope that was left and waits for the stream is held by the stream alone
            "gc_mid": (n + ba) % 4 == 1,
            "twin": ci in ("X", "XX") and (n + 2 * ba) % 3 == 1 and ["fn", "partial", "object", "partial_object"][(n + ba) % 4],
            "gen_kwargs": (n * 3 + ba) % 7,  # indices 5, 6 wrap to {} and the first set again
            "err_kind": [None, None, "frozen", "strraises", "empty", "falsy", "group1"][(n * 5 + ba) % 7],
            "awaitable_items": (n + ba) % 3 == 1,

        },  # fmt: skip
        st.one_of(st.integers(0, 4), st.integers(0, 4), st.integers(5, 14)),  # also long streams (many nested scopes / records)
        st.sampled_from(["stop", "stop", "raise"]),
        st.booleans(),
        st.booleans(),
        st.sampled_from([False, False, True]),
        st.sampled_from(["X", "X", "XX", "XX", "none"]),
        st.sampled_from(["same", "same", "other_scope", "outside", "other_task", "split_tasks"]),
        st.sampled_from(["full", "full", "break", "abandon", "close_unstarted", "timeout"]),
        st.integers(0, 3),
        st.sampled_from([False, False, True]),
        st.sampled_from([False, False, False, True]),
    )


def enumerate_cases(tier):
    for n in (0, 1, 2):
        for end in ("stop", "raise"):
            for ci in ("X", "XX", "none"):
                for co in ("same", "other_scope", "outside", "other_task", "split_tasks"):
                    for mo in ("full", "break", "abandon", "close_unstarted"):
                        for ba in (0, 1):
                            yield {"items": n, "end": end, "gen_nested": False, "gen_record": False, "nested_stream": False,
                                   "create_in": ci, "consume": co, "mode": mo, "break_after": ba}  # fmt: skip
    yield from _odd_errors()


def _odd_errors():
    for n in (1, 3):
        for ci, co in (("X", "same"), ("XX", "other_task"), ("none", "outside")):
            for end in ("stop", "raise"):
                yield {"items": n, "end": end, "gen_nested": False, "gen_record": False, "nested_stream": False, "create_in": ci, "consume": co, "mode": "full",
                       "break_after": 0, "awaitable_items": True}  # fmt: skip
    for kind in ("frozen", "strraises", "empty", "falsy", "group1"):
        for n in (0, 2):
            for ci, co in (("X", "same"), ("XX", "other_task"), ("none", "outside")):
                yield {"items": n, "end": "raise", "gen_nested": False, "gen_record": False, "nested_stream": False, "create_in": ci, "consume": co, "mode": "full",
                       "break_after": 0, "err_kind": kind}  # fmt: skip


EXHAUSTIVE_MEANS = "all (items 0-2, end, creation, consumption placement, termination mode, break position 0-1) combinations of the plain generator"


def budget(tier):
    return {"examples": 600, "shards": 1} if tier == "quick" else {"examples": 5000, "shards": 16}
