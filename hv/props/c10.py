"""C10 - recorded metrics land in the innermost active scope and fold deterministically.

Case: {"body": [Op]} - scope tree (every scope has a sync completion callback that reads its metrics) with record ops
in bodies and in concurrently running ctx.spawn tasks (virtual sleeps interleave them), records outside any scope and
after completion."""

from __future__ import annotations

from hypothesis import strategies as st

from hv import progs as P
from hv.core import Outcome

PID = "C10"
LEVEL = "exploration"
TECHNIQUE = "generated scope trees with record operations (several metric types, merge-function family) in interleaved tasks; reference left fold / depth-first fold over the harness's own event log"
RULE = (
    "cases are scope trees (<=6 scopes, or one scope with 5..45 nested ones; sync/async, some in spawned tasks, some empty or only grouping) with record operations of 5 metric types at "
    "generated positions, merge in {default replace, replace, sum, concat (non-commutative), raising}, records outside "
    "any scope and from tasks that outlive their scope; interleaving of the recording tasks through generated virtual "
    "sleeps; each record carries a unique id so loss, duplication, misplacement and reordering are visible; "
    "non-trivial = >=2 records of one type in one scope under a non-commutative merge, records on >=2 nesting levels, "
    "or recording tasks in sibling scopes; distinct = distinct program"
)
RULE += '; the same State instance may be recorded twice into one scope'
RULE += '; template: block left, scope not yet completed (nested scope held open), another task records into it'
RULE += '; every completion callback asks for the merged view twice, with two different merge functions'
RULE += '; nested scopes with their own trace id and with disposables whose entering suspends'
LEVEL_TEXT = (
    "Reference fold: the harness logs (scope, type, id, merge) for every record in execution order; in each scope's "
    "completion callback read(T) must equal the left fold of that scope's own records and metrics(merge=m) the "
    "depth-first fold over nested scopes in creation order. No record call may raise, anywhere."
)
LEVEL_NOTE = "Trusted: the interpreter's bookkeeping of which scope is innermost for the recording task (lexical, inherited by spawned tasks); sync completion callbacks read the values."
ASSUMPTIONS = [
    "after a merge function raised, the stored value for that (scope, type) must be either the value kept so far (failing record dropped) or the failing record alone; anything else - e.g. nothing stored - is a violation",
    "records arriving after a scope completed only assert 'does not raise'",
]
REQUIRED_CLASSES = ["fold-noncommutative", "two-levels", "concurrent-recorders", "raising-merge", "outside-any-scope"]


def fold(records):
    """left fold of (rid, merge) -> set of acceptable stored values (tuples of ids; None = nothing stored).
    After a merge function raised, the statement fixes only that recording does not raise; a sane store either keeps
    the value it had (the failing record is dropped) or takes the new record as it is - both are accepted, nothing else
    (in particular earlier records must not silently disappear)."""
    cands = {None}
    for rid, merge in records:
        nxt = set()
        for cur in cands:
            if cur is None or merge in ("default", "replace"):
                nxt.add((rid,))
            elif merge == "concat":
                nxt.add((*cur, rid))
            elif merge == "sum":
                nxt.add((sum(cur) + rid,))
            else:  # raising
                nxt.add(cur)
                nxt.add((rid,))
        cands = nxt
    return cands


def run_case(case) -> Outcome:
    out = Outcome()
    run, res = P.execute(case)
    if res["outcome"] != "return":
        if res["outcome"] == "hang":
            out.violate("run", "C10.run/hang", "")
        else:
            out.violate("run", f"C10.run/program-failed/{type(res['exc']).__name__}", repr(res["exc"]))
        return out
    log = run.log
    seq = {id(e): i for i, e in enumerate(log)}
    classes = set()
    completions = {tuple(e["path"]): e for e in log if e["ev"] == "completion"}
    creation = [tuple(e["path"]) for e in log if e["ev"] == "block_enter" and e["kind"] == "scope"]
    # parent of a scope = innermost lineage ancestor that had NOT yet completed when the scope was created (a scope
    # opened from an inherited context under an already completed scope nests under the nearest active ancestor)
    exit_at = {tuple(e["path"]): seq[id(e)] for e in log if e["ev"] == "block_exit" and e["kind"] == "scope"}
    created_at = {tuple(e["path"]): seq[id(e)] for e in log if e["ev"] == "block_enter" and e["kind"] == "scope"}
    parent = {}

    def done_point(node):
        return max([exit_at.get(node, len(log))] + [done_point(c) for c, q in parent.items() if q == node])

    for p in creation:
        anc = sorted([q for q in creation if q != p and _lineage_prefix(q, p)], key=len, reverse=True)
        parent[p] = next((q for q in anc if done_point(q) > created_at[p]), None)
    # a scope completes (and from then on drops records) when it and every scope nested under it has been left; the
    # callback itself runs a loop iteration later, so the point is derived from the exits, not from the callback
    exit_idx = {tuple(e["path"]): seq[id(e)] for e in log if e["ev"] == "block_exit" and e["kind"] == "scope"}

    def comp_point(node):
        pts = [exit_idx.get(node, len(log))] + [comp_point(c) for c in creation if parent.get(c) == node]
        return max(pts)

    own: dict = {}
    for e in log:
        if e["ev"] != "record":
            continue
        if e["raised"] is not None:
            out.violate("noraise", f"C10.noraise/record-raised/{'outside' if e['mscope'] is None else 'inside'}/{e['merge']}", repr(e["raised"]))
        if e["mscope"] is None:
            classes.add("outside-any-scope")
            continue
        if e["merge"] == "raising":
            classes.add("raising-merge")
        ms = tuple(e["mscope"])
        if comp_point(ms) < seq[id(e)]:
            classes.add("record-after-completion")
            continue
        own.setdefault(ms, {}).setdefault(e["type"], []).append((e["rid"], e["merge"]))
    recorders = {}
    for e in log:
        if e["ev"] == "record" and e["mscope"] is not None:
            recorders.setdefault(tuple(e["mscope"]), set()).add(tuple(x for x in e["path"] if x == "t").__len__())
    for s in creation:
        comp = completions.get(s)
        if comp is None:
            out.violate("read", "C10.read/completion-never-fired", str(s))
            continue
        if "error" in comp:
            out.violate("read", "C10.read/reading-metrics-raised", comp["error"])
            continue
        for tname in P.METRICS:
            recs = own.get(s, {}).get(tname, [])
            exp = fold(recs)
            got = comp["read"].get(tname)
            if len(recs) >= 2 and any(m in ("concat", "sum") for _, m in recs[1:]):
                classes.add("fold-noncommutative")
            if len(exp) > 1:
                out.unspecified.append("value-after-raising-merge")
            if got not in exp:
                ids = [r for r, _ in recs]
                foreign = got is not None and any(i not in ids for i in got) and all(m != "sum" for _, m in recs)
                lost = got is None and bool(recs)
                out.violate(
                    "read",
                    f"C10.read/{'foreign-record-in-scope' if foreign else ('records-lost' if lost else 'wrong-fold')}{'/falsy-metric' if tname == 'MF' else ''}",
                    f"scope {s} type {tname}: read {got}, expected one of {sorted(exp, key=str)} from own records {recs}",
                )
        # merged view: own value, then nested scopes in creation order, depth first
        def merged(node, tname):
            o = fold(own.get(node, {}).get(tname, []))
            if len(o) > 1:
                return "unspecified"
            vals = list(next(iter(o)) or ())
            for c in creation:
                if parent.get(c) == node:
                    m = merged(c, tname)
                    if m == "unspecified":
                        return "unspecified"
                    vals.extend(m or ())
            return tuple(vals) if vals else None

        for tname in P.METRICS:
            exp = merged(s, tname)
            if exp == "unspecified":
                continue
            got = comp["merged"].get(tname)
            if got != exp:
                same_set = got is not None and exp is not None and sorted(got) == sorted(exp)
                out.violate(
                    "merged",
                    f"C10.merged/{'wrong-order' if same_set else 'wrong-content'}",
                    f"scope {s} type {tname}: merged view {got}, expected {exp}",
                )
        # the second view (prepending merge) of the same scope
        def merged_rev(node, tname):
            o = fold(own.get(node, {}).get(tname, []))
            if len(o) > 1:
                return "unspecified"
            parts = [tuple(next(iter(o)) or ())]
            for c in creation:
                if parent.get(c) == node:
                    m = merged_rev(c, tname)
                    if m == "unspecified":
                        return "unspecified"
                    parts.append(tuple(m or ()))
            vals = [x for part in reversed([p for p in parts if p]) for x in part]
            return tuple(vals) if vals else None

        if "merged_rev" in comp:
            for tname in P.METRICS:
                exp = merged_rev(s, tname)
                if exp == "unspecified":
                    continue
                got = comp["merged_rev"].get(tname)
                if got != exp:
                    out.violate(
                        "merged",
                        "C10.merged/second-view-with-another-merge-function-wrong",
                        f"scope {s} type {tname}: second view (prepending merge) {got}, expected {exp}; first view {comp['merged'].get(tname)}",
                    )
        if any(parent.get(c) == s and own.get(c) for c in creation) and own.get(s):
            classes.add("two-levels")
    sib = {}
    for s in creation:
        if own.get(s) and any("t" in tuple(e["path"]) for e in log if e["ev"] == "record" and e["mscope"] is not None and tuple(e["mscope"]) == s):
            sib.setdefault(parent.get(s), []).append(s)
    if any(len(v) >= 2 for v in sib.values()):
        classes.add("concurrent-recorders")
    out.classes = sorted(classes)
    out.nontrivial = bool(classes & {"fold-noncommutative", "two-levels", "concurrent-recorders"})
    return out


def _lineage_prefix(q, p):
    """is scope q an ancestor of scope p (paths; spawned task bodies carry a "t" marker)"""
    return len(q) < len(p) and p[: len(q)] == q


def strategy(tier):
    rec = st.builds(
        lambda t, m, reuse: {"k": "record", "type": t, "merge": m, "reuse": reuse},
        st.sampled_from(["MA", "MA", "MB", "MC", "MF", "MA2", "MA2"]),
        st.sampled_from(["default", "replace", "concat", "concat", "sum", "raising"]),
        st.sampled_from([False, False, False, True]),  # record the very same instance as the previous record of this type
    )
    sleep = st.builds(lambda t: {"k": "sleep", "t": t}, st.sampled_from([0.25, 0.5, 1]))
    names = st.sampled_from(["s", "m", "n"])

    def task_body():
        return st.lists(st.one_of(rec, rec, sleep), min_size=1, max_size=4)

    def blocks(children):
        spawn = st.builds(lambda b: {"k": "spawn", "via": "ctx", "body": b}, st.one_of(task_body(), st.lists(children, min_size=1, max_size=1)))
        body = st.lists(st.one_of(rec, rec, sleep, spawn, children), min_size=1, max_size=5)
        # a nested scope may carry its own trace id and disposables whose entering suspends (siblings get created meanwhile):
        # neither changes where its values are folded into the merged views of the enclosing scopes
        trace = st.sampled_from([None, None, None, "t1", "t2"])
        slow = {"enter": {"b": "suspend_ok", "t": 0.5}, "yields": None, "exit": {"b": "ok"}, "as": "list"}
        disp = st.sampled_from([None, None, None, [slow], [{**slow, "enter": {"b": "suspend_ok", "t": 0.25}}, slow]])
        a_scope = st.builds(
            lambda n, b, tr, d: {"k": "scope", "mode": "async", "name": n, "state": [], "disp": d, "disp_obj": False, "completion": "sync", "body": b, "trace": tr},
            names, body, trace, disp,
        )  # fmt: skip
        s_scope = st.builds(lambda n, b, tr: {"k": "scope", "mode": "sync", "name": n, "state": [], "disp": None, "completion": "sync", "body": b, "trace": tr}, names, body, trace)
        return st.one_of(a_scope, a_scope, s_scope)

    block = st.recursive(blocks(rec), blocks, max_leaves=6)
    root = st.builds(
        lambda pre, b, post: {"body": [*pre, {"k": "scope", "mode": "async", "name": "root", "state": [], "disp": None, "disp_obj": False, "completion": "sync", "body": b}, *post]},
        st.lists(rec, max_size=1),
        st.lists(st.one_of(rec, block, block), min_size=1, max_size=4),
        st.lists(rec, max_size=1),
    )
    @st.composite
    def wide(draw):
        """one scope with many (5..14, sometimes 30..45) nested scopes - some empty, some with their own nested scopes, some entered from
        spawned tasks - and an order-revealing merged view of the root"""
        kids = []
        for _ in range(draw(st.one_of(st.integers(5, 14), st.integers(5, 14), st.integers(5, 14), st.integers(5, 14), st.integers(30, 45)))):
            shape = draw(st.sampled_from(["leaf", "leaf", "empty", "group", "spawned"]))
            mode = draw(st.sampled_from(["async", "sync", "sync"]))
            leaf_body = draw(st.lists(rec, min_size=1, max_size=2))
            mk = lambda body, mode=mode: {"k": "scope", "mode": mode, "name": "k", "state": [], "disp": None, "disp_obj": False, "completion": "sync", "body": body}  # noqa: E731
            if shape == "leaf":
                kids.append(mk(leaf_body))
            elif shape == "empty":
                kids.append(mk([{"k": "yield"}]))
            elif shape == "group":
                # a scope that records nothing itself and only groups recording scopes
                kids.append(mk([mk(leaf_body, "sync"), *([mk(draw(st.lists(rec, min_size=1, max_size=1)), "sync")] if draw(st.booleans()) else [])]))
            else:
                kids.append({"k": "spawn", "via": "ctx", "body": [mk(leaf_body, "sync")]})
        body = [*draw(st.lists(rec, max_size=1)), *kids, *draw(st.lists(rec, max_size=1))]
        return {"body": [{"k": "scope", "mode": "async", "name": "root", "state": [], "disp": None, "disp_obj": False, "completion": "sync", "body": body}]}

    @st.composite
    def left_but_pending(draw):
        """a scope whose block has been LEFT but which has not completed yet (a nested scope is held open by a spawned task):
        a task that inherited it records in that window - the scope is still the innermost one for that task and has not
        completed, so the record belongs to it like any earlier one"""
        mode = draw(st.sampled_from(["sync", "sync", "async"]))
        hold = draw(st.sampled_from([1, 2]))
        mk = lambda name, mode, body: {"k": "scope", "mode": mode, "name": name, "state": [], "disp": None, "disp_obj": False, "completion": "sync", "body": body}  # noqa: E731
        keeper = {"k": "spawn", "via": "asyncio" if mode == "async" else draw(st.sampled_from(["ctx", "asyncio"])),
                  "body": [mk("n", "sync", [*draw(st.lists(rec, max_size=1)), {"k": "sleep", "t": hold}, *draw(st.lists(rec, max_size=1))])]}  # fmt: skip
        late = {"k": "spawn", "via": "asyncio" if mode == "async" else draw(st.sampled_from(["ctx", "asyncio"])),
                "body": [{"k": "sleep", "t": draw(st.sampled_from([0.25, 0.5]))}, *draw(st.lists(rec, min_size=1, max_size=3))]}  # fmt: skip
        # the block suspends once after starting the tasks, so that the keeper opens its nested scope while the block is active
        inner = mk("s", mode, [*draw(st.lists(rec, max_size=2)), keeper, late, {"k": "sleep", "t": 0.125}, *draw(st.lists(rec, max_size=1))])
        body = [*draw(st.lists(rec, max_size=1)), inner, {"k": "sleep", "t": hold + 1}, *draw(st.lists(rec, max_size=1))]
        return {"body": [mk("root", "async", body)]}

    return st.one_of(root, root, root, wide(), left_but_pending())


def budget(tier):
    return {"examples": 1500, "shards": 1} if tier == "quick" else {"examples": 8000, "shards": 16}
