"""C15 - throttle never starts more than `limit` calls in any `period` window.

Case: {"limit", "period", "form": "float"|"timedelta"|"int", "calls": [{"a": arrival, "dur": duration, "out": "value"|"exc"}]}
(virtual seconds, multiples of 1/8)."""

from __future__ import annotations

import asyncio
import itertools
from datetime import timedelta

from hypothesis import strategies as st

from hv import vloop
from hv.core import Outcome

PID = "C15"
LEVEL = "exploration"
TECHNIQUE = "generated arrival patterns in exact virtual time; validity predicates (window bound, FIFO, no needless delay, termination) over the observed start times"
RULE = (
    "cases are arrival patterns of up to 12 calls on a 1/8-second grid (bursts, steady streams, gaps around the period "
    "boundary), limit 1..4, period in {0.5,1,2.5} as float/int/timedelta, wrapped coroutine duration 0..3 periods and "
    "outcome value/exception; thorough also enumerates all patterns of <=4 calls on a coarse grid; non-trivial = some "
    "window of length period contains at least limit+1 arrivals; patterns also start at non-round absolute loop times; "
    "distinct = distinct pattern+configuration"
)
RULE += '; the no-needless-delay condition is judged at arrival and at every instant of a wait'
RULE += '; one decorator object may serve the function under test and a bystander; periods of minutes'
RULE += '; the loop blocked across the instant a waiter was due (virtual CPU time); functools.partial of a coroutine function'
RULE += '; whole-second periods written as ints (2, 3, 90, 300)'
LEVEL_TEXT = (
    "Validity predicates over exact virtual start times: no half-open period window with more than limit starts, starts "
    "in arrival order, no delay when the stated condition holds, every call ends with the function's own outcome; "
    "generated patterns (sampled), small patterns enumerated in the thorough tier."
)
LEVEL_NOTE = "Trusted: virtual-time loop and the rebinding of haiway.helpers.throttling.monotonic to the loop clock."
ASSUMPTIONS = [
    "arrival order is the order in which callers reach the wrapper (logged immediately before the call)",
    "callers cancelled while waiting or running are generated; for them only the window bound and FIFO order over the calls that do start are judged",
    "the no-needless-delay condition is the stated one (fewer than limit began in the preceding period, no earlier call waiting); "
    "it is read at the arrival of a call and at every instant of its wait: once every earlier call has begun and the window has room the waiting call begins. "
    "Nothing is demanded while an earlier call is still waiting or when a caller was cancelled",
]
EXHAUSTIVE_MEANS = "thorough: all arrival patterns of <=4 calls on a half-period grid for every limit in 1..3 (zero-duration functions)"
REQUIRED_CLASSES = ["overload-window", "timedelta-period", "burst", "function-raises", "cancelled-caller"]


# periods that are not dyadic fractions (1/3, 0.1) make start times inexact in binary floating point: the window bound
# and the delay obligation are judged with this tolerance (a real violation is off by a whole scheduling step)
EPS = 1e-9
LATE = 1e-6


class ThrErr(Exception):
    pass


def run_case(case) -> Outcome:
    from haiway import throttle

    out = Outcome()
    limit, period, form, calls = case["limit"], case["period"], case["form"], case["calls"]
    n = len(calls)
    t0 = case.get("t0", 0)  # absolute loop time at which the pattern starts (all logged times are relative to it)
    arrivals: list = []  # (index, time) in arrival order
    starts: list = []  # (index, time) in start order
    results: dict = {}
    produced: dict = {}

    async def main(loop):
        async def fn(i):
            starts.append((i, loop.time() - t0))
            if calls[i].get("busy"):
                # the function does synchronous work first (virtual CPU time): the loop is blocked, timers that fall due
                # meanwhile fire late - calls still begin when they actually begin
                loop._vtime += calls[i]["busy"]
            if calls[i]["dur"] > 0:
                await asyncio.sleep(calls[i]["dur"])
            if calls[i]["out"] == "exc":
                e = ThrErr(i)
                produced[i] = e
                raise e
            v = ("v", i)
            produced[i] = v
            return v

        if form == "timedelta":
            p = timedelta(seconds=period)
        elif form == "int":
            p = int(period)
        else:
            p = float(period)
        # the bare decorator form uses the documented defaults limit=1, period=1 second
        # ONE decorator object (a reusable preset such as `limited = throttle(limit=2, period=1)`), applied to the function
        # under test and - for bystander == "same" - to a second function: each decorated function has its own window
        preset = None if form == "bare" else throttle(limit=limit, period=p)
        target = fn
        if case.get("callable") == "partial":
            # the throttled callable is a functools.partial of a coroutine function (no __name__, no __qualname__)
            import functools

            async def fn_with_prefix(_prefix, i):
                return await fn(i)

            target = functools.partial(fn_with_prefix, "p")
        wrapped = throttle(target) if preset is None else preset(target)

        if case.get("bystander"):
            # a second, independently throttled function (much longer period) called at the same moments: the two
            # throttles must not share anything

            async def other_fn(i):
                return ("other", i)

            other = preset(other_fn) if (case["bystander"] == "same" and preset is not None) else throttle(limit=1000, period=1000.0)(other_fn)
        else:
            other = None

        async def caller(i):
            if other is not None:
                r = await other(i)
                if r != ("other", i):
                    produced[("other", i)] = r
            if calls[i]["a"] > 0:
                await asyncio.sleep(calls[i]["a"])
            arrivals.append((i, loop.time() - t0))
            try:
                if case.get("in_scope"):
                    # every caller lives in its own scope (one scope per request)
                    from haiway import ctx

                    async with ctx.scope(f"c{i}"):
                        results[i] = ("ret", await wrapped(i))
                else:
                    results[i] = ("ret", await wrapped(i))
            except asyncio.CancelledError as exc:
                results[i] = ("cancelled", exc)
                if calls[i].get("cancel_at") is not None:
                    raise
            except BaseException as exc:  # noqa: BLE001 - observation
                results[i] = ("exc", exc)

        if t0:
            await asyncio.sleep(t0)
        tasks = [loop.create_task(caller(i)) for i in range(n)]
        for at, x in case.get("blocks") or []:
            # some unrelated callback does synchronous work for x (virtual) seconds at that moment: the loop is blocked
            loop.call_at(t0 + at, lambda x=x: setattr(loop, "_vtime", loop._vtime + x))
        for i, c in enumerate(calls):
            if c.get("cancel_at") is not None:
                loop.call_at(t0 + c["cancel_at"], tasks[i].cancel)
        if tasks:
            await asyncio.wait(tasks)
        return None

    res = vloop.run(main)
    if res.outcome == "raise":
        raise res.value
    cfg = f"limit{min(limit, 2)}{'+' if limit > 2 else ''}"
    if res.outcome == "hang":
        out.violate("term", f"C15.term/hang/{cfg}", f"calls never finished: results={sorted(results)} of {n}")
    s_of = dict(starts)
    a_of = dict(arrivals)
    # (4) every call runs and returns the function's own outcome
    # a cancelled waiter's slot is a grey area; with a blocked loop (busy) timers fire late, so "no needless delay" is not judged
    any_cancel = any(c.get("cancel_at") is not None or c.get("busy") for c in calls) or bool(case.get("blocks"))
    for i in range(n):
        if calls[i].get("busy") and calls[i].get("cancel_at") is None and i not in results and res.outcome != "hang":
            out.violate("term", f"C15.term/call-never-finished/{cfg}", f"call {i}")
            continue
        if calls[i].get("cancel_at") is not None:
            continue  # a cancelled caller ends cancelled (or finished earlier): its outcome is not the subject
        if i not in results:
            if res.outcome != "hang":
                out.violate("term", f"C15.term/call-never-finished/{cfg}", f"call {i}")
            continue
        rk, rv = results[i]
        if i not in produced or rv is not produced[i]:
            out.violate("outcome", f"C15.outcome/not-the-functions-own/{cfg}", f"call {i}: {results[i]!r} vs {produced.get(i)!r}")
    if len(starts) != len(set(i for i, _ in starts)):
        out.violate("outcome", f"C15.outcome/function-invoked-twice/{cfg}", repr(starts))
    # (1) window bound
    ts = sorted(t for _, t in starts)
    for i in range(len(ts) - limit):
        if ts[i + limit] - ts[i] < period - EPS:
            out.violate(
                "window",
                f"C15.window/more-than-limit-starts-in-period/{cfg}",
                f"starts={ts} limit={limit} period={period}: {ts[i:i + limit + 1]}",
            )
            break
    # (2) FIFO: starts happen in arrival order
    arr_order = [i for i, _ in arrivals]
    start_order = [i for i, _ in starts]
    if start_order != [i for i in arr_order if i in s_of]:
        out.violate("fifo", f"C15.fifo/starts-out-of-arrival-order/{cfg}", f"arrivals={arrivals} starts={starts}")
    # (3) no needless delay (only judged without cancelled callers: a cancelled waiter's slot is a grey area)
    for pos, (i, a) in enumerate(arrivals if not any_cancel else []):
        if i not in s_of:
            continue
        earlier = arr_order[:pos]
        if any(j not in s_of or s_of[j] > a for j in earlier):
            continue  # an earlier call is still waiting at a
        began = [j for j in earlier if a - period - EPS < s_of[j] <= a]  # boundary cases count as "began" (fewer obligations)
        if len(began) < limit and s_of[i] != a:
            out.violate(
                "delay",
                f"C15.delay/needless-delay/{cfg}",
                f"call {i} arrived {a} started {s_of[i]} although only {len(began)} of limit {limit} began in the preceding period; starts={starts}",
            )
            break
    # (3b) the same condition read at every instant of a wait: a call that is still waiting at the instant t at which
    # every earlier call has begun and fewer than `limit` calls began in (t - period, t] is being delayed although the
    # stated condition holds - it has to begin at that instant (LATE is far below one scheduling step of any pattern)
    if not any_cancel and not out.violations and res.outcome != "hang":
        for pos, (i, a) in enumerate(arrivals):
            earlier = arr_order[:pos]
            if i not in s_of or any(j not in s_of for j in earlier):
                continue
            free = max([a] + [s_of[j] for j in earlier])
            cands = sorted({free} | {s_of[j] + period for j in earlier if s_of[j] + period > free})
            allowed = next(t for t in cands if sum(1 for j in earlier if s_of[j] + period > t + EPS) < limit)
            if s_of[i] > allowed + LATE:
                out.violate(
                    "delay",
                    f"C15.delay/still-waiting-after-the-window-freed/{cfg}",
                    f"call {i} arrived {a}, every earlier call had begun and fewer than {limit} began in the preceding period at "
                    f"{allowed}, yet it began at {s_of[i]}; arrivals={arrivals} starts={starts} period={period}",
                )
                break
    # classes
    at = sorted(t for _, t in arrivals)
    overload = any(
        sum(1 for t in at if lo <= t < lo + period) >= limit + 1 for lo in at
    )
    classes = []
    if overload:
        classes.append("overload-window")
    if form == "timedelta":
        classes.append("timedelta-period")
    if any(at.count(t) >= 2 for t in at):
        classes.append("burst")
    if any(c["out"] == "exc" for c in calls):
        classes.append("function-raises")
    if any(c["dur"] >= period for c in calls):
        classes.append("long-running-function")
    if any_cancel:
        classes.append("cancelled-caller")
    if case.get("bystander"):
        classes.append("second-throttled-function")
    out.classes = classes
    out.nontrivial = overload
    return out


def strategy(tier):
    @st.composite
    def cases(draw):
        limit = draw(st.integers(1, 4))
        # also periods of minutes (rate limits of external services): waits longer than a minute
        period = draw(st.sampled_from([0.5, 1.0, 2.5, 0.5, 1.0, 2.5, 1 / 3, 0.1, 0.7, 90.0, 300.0, 2.0, 3.0]))
        if period in (0.5, 1.0, 2.5, 90.0, 300.0, 2.0, 3.0):
            # whole numbers of seconds may be written as a Python int (`period=2`, `period=60`)
            form = draw(st.sampled_from(["float", "timedelta", "float", "int"] if float(period).is_integer() else ["float", "timedelta"]))
        else:
            form = "float"  # not a whole number of microseconds: only meaningful as a float
        if draw(st.integers(0, 9)) == 0:
            limit, period, form = 1, 1.0, "bare"
        n = draw(st.integers(1, 12))
        shape = draw(st.sampled_from(["burst", "steady", "boundary", "free"]))
        grid = lambda lo, hi: st.integers(lo, hi).map(lambda k: k / 8)  # noqa: E731
        arr = []
        if shape == "burst":
            base = draw(grid(0, 16))
            arr = [base + draw(st.sampled_from([0, 0, 0, 0.125])) for _ in range(n)]
        elif shape == "steady":
            step = draw(st.sampled_from([0.125, 0.25, 0.5, period / limit if (period / limit * 8) % 1 == 0 else 0.25]))
            arr = [k * step for k in range(n)]
        elif shape == "boundary":
            # gaps straddling the period boundary
            t = 0.0
            for _ in range(n):
                arr.append(t)
                # also a few milliseconds before / after the instant a slot frees (no "close enough" is allowed)
                t += draw(st.sampled_from([0, period - 0.125, period, period + 0.125, 0.125, period - 1 / 256, period - 1 / 1024, period + 1 / 256]))
        else:
            arr = [draw(grid(0, 40)) for _ in range(n)]
        calls = []
        busy_case = draw(st.integers(0, 3)) == 0
        for a in arr:
            dur = draw(st.sampled_from([0, 0, 0.125, period / 2 if (period / 2 * 8) % 1 == 0 else 0.25, period, 3 * period]))
            cancel_at = None
            if draw(st.integers(0, 7)) == 0:
                # the caller is cancelled while waiting for its turn or while running; the window bound over the calls
                # that DO start must still hold
                cancel_at = a + draw(st.sampled_from([0.125, 0.25, 0.5, period / 2 if (period / 2 * 8) % 1 == 0 else 0.25]))
            busy = draw(st.sampled_from([0] * 7 + [0.375, 0.625, 1.5])) if busy_case else 0
            calls.append({"a": a, "dur": dur, "out": draw(st.sampled_from(["value", "value", "exc"])), "cancel_at": cancel_at, **({"busy": busy} if busy else {})})
        # the pattern starts at an absolute time that is not a round number (nothing may depend on where the clock stands)
        t0 = draw(st.sampled_from([0, 0, 1 / 128, 37 / 128, 1000 + 5 / 1024]))
        return {"limit": limit, "period": period, "form": form, "calls": calls, "t0": t0, "bystander": draw(st.sampled_from([False, False, False, True, "same"])), "in_scope": draw(st.integers(0, 3)) == 0,
                "callable": draw(st.sampled_from(["fn", "fn", "partial"]))}

    @st.composite
    def blocked_release(draw):
        """the loop is blocked (some callback doing synchronous work) across the instant at which a waiting call was due: the
        waiter begins late, and the window of every later call is counted from when it actually began"""
        limit = draw(st.integers(1, 2))
        period = draw(st.sampled_from([1.0, 2.5]))
        mk = lambda a: {"a": a, "dur": 0, "out": "value", "cancel_at": None}  # noqa: E731
        first = [mk(0) for _ in range(limit)]
        waiters = [mk(draw(st.sampled_from([0.125, 0.5]))) for _ in range(draw(st.integers(1, limit)))]
        busy = draw(st.sampled_from([0.375, 0.625, 1.5]))
        block = [period - draw(st.sampled_from([0.125, 0.25])), busy]
        later = [mk(period + draw(st.sampled_from([0.25, 0.5, 1.0, 1.5, 2.0]))) for _ in range(draw(st.integers(1, 3)))]
        return {"limit": limit, "period": period, "form": "float", "calls": [*first, *waiters, *later], "t0": draw(st.sampled_from([0, 37 / 128])), "bystander": False,
                "in_scope": False, "blocks": [block]}  # fmt: skip

    return st.one_of(cases(), cases(), cases(), cases(), blocked_release())


def enumerate_cases(tier):
    if tier != "thorough":
        return None

    def gen():
        for limit in (1, 2, 3):
            for period in (1.0,):
                for n in range(1, 5):
                    for arr in itertools.product([0, 0.5, 1.0, 1.5, 2.0], repeat=n):
                        yield {
                            "limit": limit,
                            "period": period,
                            "form": "float",
                            "calls": [{"a": a, "dur": 0, "out": "value"} for a in arr],
                        }

    return gen()


def budget(tier):
    return {"examples": 3000, "shards": 1} if tier == "quick" else {"examples": 10000, "shards": 16}
