"""C07 - cancellation is never swallowed by scopes; the cancellation check reports it.

Case A: {"kind":"prog", "body": [Op], "releases": [...], "inject": iteration | null} - cancel at every crash point.
Case B: {"kind":"check", "script": [step...]} - ctx.check_cancellation() against a pending-request counter."""

from __future__ import annotations

import asyncio

from hypothesis import strategies as st

from haiway import ctx
from hv import conc, vloop
from hv import progs as P
from hv.core import Outcome

PID = "C07"
LEVEL = "fault_enumeration"
TECHNIQUE = "exhaustive cancellation crash points (every loop iteration) over generated scope programs; 'not done at injection => ends cancelled' oracle; scripted check_cancellation histories vs a request counter"
RULE = (
    "cases are (A) scope programs as in C06 with suspending/failing disposables; after a dry run the main task is "
    "cancelled at every loop iteration 1..N (enter incl. disposables, body, exit waiting for disposables, exit waiting "
    "for spawned tasks); (B) scripts over {ctx.cancel(), task.cancel() from outside, catch, uncancel, check, yield, "
    "check from another task, check outside a task, enter/leave scope}; non-trivial = the injection lands while the "
    "victim is inside >=1 scope (A) or a check after >=1 request (B); distinct = distinct program / script"
)
RULE += '; check_cancellation is also asked inside the handler of a delivered CancelledError; disposables may spawn a task while entering'
RULE += "; check scripts may spawn a task that fails at once (spawn_fail); a task of the victim's scopes must have ended when the victim has ended (event log)"
RULE += '; scripts may leave a scope while a cancel from outside arrives during the wait (leave_cancelled); prepared scopes in programs'
RULE += '; disposables whose set-up / cleanup suspends and absorbs an interruption'
LEVEL_TEXT = (
    "Exhaustive single-fault injection: asyncio delivers a cancel to any task that is not done, and the generated "
    "programs never catch it, so 'not done at injection => task ends cancelled and every task it spawned in its scopes "
    "is done' is a sound oracle at every crash point. check_cancellation is compared with a reference counter of "
    "pending cancellation requests."
)
LEVEL_NOTE = "Trusted: virtual loop determinism; asyncio's own cancellation semantics (Task.cancelling/uncancel) as the reference for part B."
ASSUMPTIONS = [
    "a cancel that arrives after the victim's coroutine has finished is a no-op by asyncio's rules (excluded)",
    "double cancellation is generated only in the check_cancellation scripts",
]
REQUIRED_CLASSES = ["phase-enter", "phase-body", "phase-exit", "check-after-request", "with-failed-child"]


def phase_at(run, k):
    """what was the victim doing at the injection: derived from the last main-task event before iteration k"""
    last = None
    depth = 0
    for e in run.log:
        if e["it"] >= k:
            break
        if "t" in tuple(e["path"]):
            continue
        if e["ev"] == "block_enter":
            depth += 1
            last = "enter"
        elif e["ev"] == "body_start":
            last = "body"
        elif e["ev"] in ("body_end", "raise"):
            last = "exit"
        elif e["ev"] == "block_exit":
            depth -= 1
            last = "body" if depth > 0 else "outside"
    return last or "outside", depth


def _contains(exc, target, seen=None) -> bool:
    seen = seen or set()
    if exc is None or id(exc) in seen:
        return False
    seen.add(id(exc))
    if exc is target:
        return True
    if isinstance(exc, BaseExceptionGroup) and any(_contains(e, target, seen) for e in exc.exceptions):
        return True
    return _contains(exc.__cause__, target, seen) or _contains(exc.__context__, target, seen)


def run_prog(case) -> Outcome:
    out = Outcome()
    rel = conc.release_plan(case, complete=True)
    run0, dry = P.execute(case, releases=rel)
    runs = 1
    classes = set()
    if dry["outcome"] == "hang":
        out.violate("term", "C07.term/hang-without-fault", "dry run")
    points = [case["inject"]] if case.get("inject") is not None else range(1, dry["iterations"] + 1)
    for k in points:
        if out.violations:
            break
        run, res = P.execute(case, inject_at=k, releases=rel)
        runs += 1
        if not res["injected"]:
            continue
        phase, depth = phase_at(run0, k)
        if depth > 0:
            classes.add(f"phase-{phase}")
        failed_child = any(e["ev"] == "task_end" and e.get("how") == "failed" for e in run.log)
        if failed_child:
            classes.add("with-failed-child")
        extra = "/with-failed-child" if failed_child else ""
        if res.get("in_group_exit"):
            extra += "/in-group-exit"  # the victim was suspended inside asyncio.TaskGroup.__aexit__ at the injection
        disp_err = any(e["ev"] in ("d_exit_raise", "d_enter_raise") for e in run.log)
        if disp_err:
            extra += "/with-disposable-error"
        raised_before = res["outcome"] == "raise" and any(
            e["ev"] in ("raise", "d_exit_raise", "d_enter_raise")
            and "t" not in tuple(e["path"])
            and e["it"] <= k
            and _contains(res["exc"], e["exc"])
            for e in run.log
        )
        if raised_before:
            # the victim was already unwinding its own exception through scope exits when the cancel arrived
            # was the victim suspended inside asyncio.TaskGroup.__aexit__ (waiting for aborted tasks) when the cancel
            # arrived? read from the task's await chain at the injection
            waiting = bool(res.get("in_group_exit"))
            phase = "unwinding-exception/" + ("group-wait" if waiting else "no-group-wait")
        user_cleanup_error = res["outcome"] == "raise" and any(
            e["ev"] in ("d_exit_raise", "d_enter_raise") and e["it"] >= k and _contains(res["exc"], e["exc"]) for e in run.log
        )
        if user_cleanup_error:
            # double fault: a user-supplied disposable raised while the cancellation was being processed and its
            # error replaced the CancelledError (ordinary Python semantics for a raising __aexit__; C08 demands that
            # the cleanup error surfaces) - which of the two wins is not specified
            out.unspecified.append("cancellation-replaced-by-disposable-error")
        elif res["outcome"] == "hang":
            out.violate("lost", f"C07.lost/victim-hangs-after-cancel/{phase}{extra}", f"inject={k}")
        elif res["outcome"] != "cancelled":
            out.violate(
                "lost",
                f"C07.lost/cancel-swallowed/{phase}{extra}",
                f"cancel injected at iteration {k} (victim inside {depth} block(s), phase {phase}); victim ended by {res['outcome']} {res['exc']!r}, cancelling()={res['cancelling']}",
            )
        # tasks spawned into the victim's scopes are done (cancelled unless already finished)
        for sp, t in run.tasks.items():
            if run.owner_of.get(sp) is not None and not t.done():
                out.violate("children", f"C07.children/spawned-task-still-running/{phase}{extra}", f"{sp}; inject={k}")
        # (the loop's teardown cancels whatever is left, so the above only sees tasks that resist) - by the event log: every
        # task spawned into one of the victim's scopes has ENDED by the time the victim itself has ended
        order = {id(e): i for i, e in enumerate(run.log)}
        victim_done = next((order[id(e)] for e in run.log if e["ev"] == "victim_done"), None)
        if victim_done is not None and res["outcome"] != "hang":
            started = {tuple(e["path"]) for e in run.log if e["ev"] == "task_start"}
            ended = {tuple(e["path"]): order[id(e)] for e in run.log if e["ev"] == "task_end"}
            for sp in run.tasks:
                if run.owner_of.get(sp) is None or tuple(sp) not in started:
                    continue
                if ended.get(tuple(sp), len(run.log)) > victim_done:
                    out.violate(
                        "children",
                        f"C07.children/spawned-task-outlives-the-victim/{phase}{extra}",
                        f"task {sp} of scope {run.owner_of.get(sp)} was still running when the cancelled victim had ended; inject={k}",
                    )
                    break
        # ... and they are cancelled when the cancellation arrives, not awaited until they finish on their own
        # (exact virtual time, same oracle as C06); only judged when the cancellation itself was not lost
        if res["outcome"] == "cancelled":
            from hv.props import c06

            probe = Outcome()
            c06._late_tasks(case, run, {**res, "inject_time": res["inject_time"]}, probe, k, "cancel")
            for v in probe.violations:
                out.violate("children", f"C07.children/spawned-task-awaited-instead-of-cancelled/{phase}{extra}", v["detail"])
    out.classes = sorted(classes)
    out.counts = {"executions": runs}
    out.nontrivial = bool(classes & {"phase-enter", "phase-body", "phase-exit"})
    return out


def run_check(case) -> Outcome:
    """check_cancellation raises iff the current task has a pending cancellation request"""
    out = Outcome()
    script = case["script"]
    obs: list = []
    callback_result: dict = {}
    seen_request = {"v": False}
    must_deliver = {"v": False}

    async def main(loop):
        other_result: dict = {}

        async def other_task():
            try:
                ctx.check_cancellation()
                other_result["raised"] = False
            except asyncio.CancelledError:
                other_result["raised"] = True

        async def subject():
            me = asyncio.current_task()
            pending = 0  # reference: number of cancellation requests not yet taken back with uncancel()
            i = 0
            stack = []
            # "spawn_fail": a task spawned into the innermost scope fails at once. The task group then cancels the scope's
            # body to make it leave; that internal request is the group's own business until the scope has been left
            # (checks made in between are not judged). It is taken back by the group when it was DELIVERED to the body (the
            # script's catch) before the scope is left; when the task's failure is only noticed while the scope exit waits,
            # Python 3.12.1's TaskGroup leaves the request pending (known finding KF1b territory): nothing after that is
            # judged in this script.
            internal = {"level": None, "suspended": False, "tainted": False}

            async def failing():
                raise ValueError("spawned task failed")

            while i < len(script):
                step = script[i]
                i += 1
                try:
                    if step in ("ctx_cancel", "ext_cancel") and internal["level"] is not None:
                        internal["tainted"] = True
                    if step == "ctx_cancel":
                        ctx.cancel()
                        pending += 1
                        seen_request["v"] = True
                        must_deliver["v"] = True
                    elif step == "ext_cancel":
                        me.cancel()  # same effect as a cancel from another task, delivered at the next suspension
                        pending += 1
                        seen_request["v"] = True
                        must_deliver["v"] = True
                    elif step == "uncancel":
                        if pending > 0:
                            me.uncancel()
                            pending -= 1
                            must_deliver["v"] = False  # whether a taken-back request is still delivered is asyncio's business
                    elif step == "spawn_fail":
                        if stack and internal["level"] is None and not internal["tainted"]:
                            ctx.spawn(failing)
                            internal["level"], internal["suspended"] = len(stack), False
                            if seen_request["v"]:
                                # a request of the user's (even one taken back) next to the group's own: which of the two a
                                # delivered CancelledError belongs to cannot be told - not judged from here on
                                internal["tainted"] = True
                    elif step == "check" and (internal["level"] is not None or internal["tainted"]):
                        try:
                            ctx.check_cancellation()
                        except asyncio.CancelledError:
                            pass
                    elif step == "check":
                        expect = pending > 0
                        try:
                            ctx.check_cancellation()
                            raised = False
                        except asyncio.CancelledError:
                            raised = True
                        obs.append(("check", expect, raised, me.cancelling()))
                    elif step == "yield":
                        expect_delivery = must_deliver["v"]
                        must_deliver["v"] = False
                        await asyncio.sleep(0)
                        if expect_delivery:
                            # a cancellation request (ctx.cancel() or task.cancel()) must be delivered at the next
                            # suspension point; reaching this line means it was not
                            obs.append(("undelivered-after-failed-child-exit" if internal["tainted"] else "undelivered", True, False, me.cancelling()))
                    elif step == "other":
                        t = loop.create_task(other_task())
                        await asyncio.shield(t)
                        obs.append(("other", False, other_result.get("raised"), 0))
                    elif step == "enter":
                        cm = ctx.scope("chk")
                        await cm.__aenter__()
                        stack.append(cm)
                    elif step == "leave" and stack:
                        left_level = len(stack)
                        undelivered_at_leave = must_deliver["v"]
                        try:
                            await stack.pop().__aexit__(None, None, None)
                        finally:
                            if internal["level"] == left_level:
                                # ... or a request of the user's that had not been delivered yet when the exit began: it is
                                # delivered inside the exit, where the failed task's error wins (KF1)
                                internal["tainted"] = internal["tainted"] or not internal["suspended"] or undelivered_at_leave
                                internal["level"] = None
                    elif step == "leave_cancelled" and stack and internal["level"] is None:
                        # the scope is left (clean body) while a task spawned into it is still running, and a cancellation
                        # from outside arrives during that wait - whatever requests the task has absorbed before
                        ctx.spawn(asyncio.sleep, 1)
                        loop.call_soon(me.cancel)
                        pending += 1
                        seen_request["v"] = True
                        await stack.pop().__aexit__(None, None, None)
                        # reaching this line means the exit swallowed the request
                        obs.append(("undelivered", True, False, me.cancelling()))
                    elif step == "leave_err" and stack:
                        # the block is left with an ordinary exception of its body (handled by the code around it): this
                        # neither makes nor takes back a cancellation request
                        err = ValueError("body failed")
                        left_level = len(stack)
                        undelivered_at_leave = must_deliver["v"]
                        try:
                            await stack.pop().__aexit__(ValueError, err, None)
                        finally:
                            if internal["level"] == left_level:
                                # ... or a request of the user's that had not been delivered yet when the exit began: it is
                                # delivered inside the exit, where the failed task's error wins (KF1)
                                internal["tainted"] = internal["tainted"] or not internal["suspended"] or undelivered_at_leave
                                internal["level"] = None
                except asyncio.CancelledError:
                    # the script's own 'catch': delivery of a request; the request stays pending until uncancel()
                    must_deliver["v"] = False
                    obs.append(("caught", None, None, me.cancelling()))
                    if internal["level"] is not None and internal["level"] == len(stack):
                        internal["suspended"] = True  # the group's own request reached the body
                    # asked from INSIDE the handler of the delivered CancelledError (cleanup code, a finally block, the
                    # __exit__ of something used in the body): the request is as pending there as after the handler
                    try:
                        ctx.check_cancellation()
                        raised = False
                    except asyncio.CancelledError:
                        raised = True
                    if internal["level"] is None and not internal["tainted"]:
                        obs.append(("check-in-handler", pending > 0, raised, me.cancelling()))
            while stack:
                try:
                    await stack.pop().__aexit__(None, None, None)
                except asyncio.CancelledError:
                    pass

        def plain_callback():
            # a loop callback runs outside any task: the check must not raise there
            try:
                ctx.check_cancellation()
                callback_result["raised"] = False
            except BaseException as exc:  # noqa: BLE001
                callback_result["raised"] = repr(exc)

        t = loop.create_task(subject())
        loop.call_soon(plain_callback)
        try:
            await t
        except asyncio.CancelledError:
            pass
        await vloop.settle()
        return None

    res = vloop.run(main)
    if res.outcome == "raise":
        raise res.value
    if res.outcome == "hang":
        out.violate("check", "C07.check/script-hang", str(script))
    if callback_result.get("raised") is not False:
        out.violate("check", "C07.check/raises-outside-task", repr(callback_result))
    for kind, expect, raised, cancelling in obs:
        if kind == "check" and expect != raised:
            out.violate(
                "check",
                f"C07.check/{'does-not-raise-after-request' if expect else 'raises-without-request'}",
                f"script={script}: pending request expected={expect}, check raised={raised}, task.cancelling()={cancelling}",
            )
        if kind == "check-in-handler" and expect != raised:
            out.violate(
                "check",
                f"C07.check/{'does-not-raise' if expect else 'raises-without-request'}-while-the-cancellation-is-being-handled",
                f"script={script}: pending request expected={expect}, check raised={raised}, task.cancelling()={cancelling}",
            )
        if kind == "other" and raised:
            out.violate("check", "C07.check/raises-in-unrelated-task", f"script={script}")
        if kind == "undelivered":
            out.violate("request", "C07.request/cancellation-request-not-delivered", f"script={script}: task.cancelling()={cancelling}")
        if kind == "undelivered-after-failed-child-exit":
            # the request was delivered while the scope exit waited for a spawned task that failed, and was lost there:
            # the known finding KF1 (asyncio.TaskGroup prefers the task's error, haiway silences the group), reached through
            # a script instead of a program
            out.violate(
                "lost",
                "C07.lost/cancel-swallowed/exit/with-failed-child/in-group-exit/check-script",
                f"script={script}: a pending cancellation request was consumed by the scope exit (task.cancelling()={cancelling})",
            )
    out.classes = ["check-after-request"] if any(k == "check" and e for k, e, _, _ in obs) else []
    out.nontrivial = bool(out.classes)
    return out


def run_case(case) -> Outcome:
    return run_check(case) if case.get("kind") == "check" else run_prog(case)


def strategy(tier):
    progs = conc.program(disp_faults=True, body_raises=True).map(lambda p: {"kind": "prog", **p, "inject": None})
    steps = st.sampled_from(["ctx_cancel", "ctx_cancel", "ext_cancel", "uncancel", "check", "check", "yield", "yield", "other", "enter", "leave", "leave_err", "spawn_fail", "leave_cancelled"])
    checks = st.builds(lambda s: {"kind": "check", "script": s}, st.lists(steps, min_size=1, max_size=10))
    absorbing = conc.absorbing_disposable_program().map(lambda p: {"kind": "prog", **p, "inject": None})
    return st.one_of(progs, progs, progs, progs, checks, checks, absorbing)


STEPS = ["ctx_cancel", "ext_cancel", "uncancel", "check", "yield", "other", "enter", "leave", "leave_err"]
# generated scripts and one extra enumeration also use "spawn_fail" (a task spawned into the innermost scope fails at once)


def enumerate_cases(tier):
    """every check_cancellation script up to length 4 (quick) / 5 (thorough)"""
    import itertools

    n = 4 if tier == "quick" else 5
    for length in range(1, n + 1):
        for script in itertools.product(STEPS, repeat=length):
            if "check" in script or "yield" in script:
                yield {"kind": "check", "script": list(script)}
    # a cancellation arriving while the exit waits for a spawned task, after 0..2 requests that were caught earlier
    for pre in ([], ["ext_cancel", "yield"], ["ctx_cancel", "yield"], ["ext_cancel", "yield", "ctx_cancel", "yield"], ["ctx_cancel", "uncancel", "yield"]):
        for tail in (["check"], ["yield", "check"], ["enter", "leave", "check"]):
            yield {"kind": "check", "script": [*pre, "enter", "leave_cancelled", *tail]}
            yield {"kind": "check", "script": ["enter", *pre, "leave_cancelled", *tail]}
    # a failing spawned task while the body is suspended, the scope left, then checks / further requests
    for tail in itertools.product(["check", "ctx_cancel", "yield", "enter", "leave"], repeat=2):
        for leave in ("leave", "leave_err"):
            yield {"kind": "check", "script": ["enter", "spawn_fail", "yield", "yield", leave, "check", *tail, "check"]}


EXHAUSTIVE_MEANS = "part B only: every script over the 8 step kinds up to length 4 (quick) / 5 (thorough) that contains a check or a suspension"


def budget(tier):
    return {"examples": 1000, "shards": 1} if tier == "quick" else {"examples": 2000, "shards": 16}
