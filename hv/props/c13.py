"""C13 - async cache shares one in-flight call; cancelling a waiter harms no one else.

Case: {"limit": 1|2, "exp": null|x, "method": bool, "callers": [{"key": 0..2, "at": t}], "invs": [{"dur": d, "out": "value"|"exc"}],
       "inject": [[caller, iteration], ...] | null}
Without "inject" the harness enumerates a single `caller.cancel()` at every (caller, loop iteration) of the dry run."""

from __future__ import annotations

import asyncio
import inspect

from hypothesis import strategies as st

from hv import vloop
from hv.core import Outcome

PID = "C13"
LEVEL = "fault_enumeration"
TECHNIQUE = "generated caller schedules in virtual time x exhaustive single-cancellation injection at every (caller, loop iteration); history-predicate oracle"
RULE = (
    "cases are groups of 2..5 callers over keys {0,1,2} arriving at generated virtual times relative to the wrapped "
    "coroutine's start/end (durations and outcomes generated, limit 1..2, expiration none or shorter than the call); "
    "for every program the dry run is followed by one run per (caller, loop iteration) with that caller cancelled "
    "there, plus generated double faults; non-trivial = >=2 callers overlap one in-flight invocation and a cancel lands "
    "while it is in flight, or expiry/eviction happens while it is in flight; distinct = distinct program"
)
RULE += '; template: the least recently used key still in flight when the cache overflows'
RULE += '; template: an expired key computed anew beside a newer in-flight key in a full cache'
RULE += '; template: an evicted invocation finishes while the displacing key is in flight'
RULE += '; invocations may return an exception instance'
LEVEL_TEXT = (
    "Exhaustive single-fault injection per generated program: every caller is cancelled at every loop iteration of the "
    "program's deterministic schedule; each run is judged by history predicates (sharing obligation, outcome of the "
    "joined invocation at the right virtual time, the wrapped coroutine never sees a cancel and always finishes)."
)
LEVEL_NOTE = "Trusted: virtual-time loop determinism (the injected run equals the dry run up to the injection point)."
ASSUMPTIONS = [
    "a wrapped coroutine that cancels itself is not generated",
    "at exactly age == expiration joining or recomputing are both accepted",
    "sharing obligation counts every other key called in between (weaker than exact LRU, sound)",
]
REQUIRED_CLASSES = ["overlap", "cancel-in-flight", "expiry-or-eviction-in-flight"]


class CErr(Exception):
    pass


class Val:
    __slots__ = ("inv",)

    def __init__(self, inv):
        self.inv = inv


class RetExc(Exception):
    """an exception INSTANCE that an invocation RETURNS as its value (a validation report, a recorded failure)"""

    def __init__(self, inv):
        super().__init__(inv)
        self.inv = inv


def execute(case, inject):
    """one run; returns observation dict"""
    from haiway import cache

    limit, exp, callers, invs = case["limit"], case["exp"], case["callers"], case["invs"]
    obs = {"invs": [], "calls": [], "results": {}, "cancelled_at": {}, "hang": False, "bystander_bad": [], "bystander_calls": 0}
    tasks: list = []
    current: dict = {}
    kw = {"limit": limit}
    if exp is not None:
        kw["expiration"] = exp

    async def main(loop):
        def register(key):
            # runs synchronously inside the calling task (the cache creates the coroutine at call time)
            idx = len(obs["invs"])
            cur = asyncio.current_task()
            by = tasks.index(cur) if cur in tasks else None
            rec = {"key": key, "start": loop.time(), "cancel_seen": False, "finished": None, "by": by, "ord": len(obs["invs"]) + len(obs["calls"])}
            obs["invs"].append(rec)
            if by is not None and current.get(by) is not None:
                current[by]["started"].append(idx)
            return idx, rec

        async def body(idx, rec):
            spec = invs[idx % len(invs)]
            try:
                if spec["dur"] > 0:
                    await asyncio.sleep(spec["dur"])
                else:
                    await asyncio.sleep(0)
            except asyncio.CancelledError:
                rec["cancel_seen"] = True
                raise
            rec["finished"] = loop.time()
            if spec["out"] == "exc":
                raise CErr(idx)
            if spec["out"] == "retexc":
                return RetExc(idx)
            return Val(idx)

        # one decorator object per case (a reusable preset), applied to the function under test and to a bystander
        preset = cache(**kw)
        extra: list = []
        if case.get("method"):

            class Holder:
                @preset
                @inspect.markcoroutinefunction
                def fn(self, key):
                    return body(*register(key))

            fn = Holder().fn
        else:

            @preset
            @inspect.markcoroutinefunction
            def fn(key):
                return body(*register(key))

        if case.get("bystander"):
            # a SECOND function cached through the same decorator object, called with the same keys while the first one's
            # invocations are in flight: it must run its own function and get its own results

            @preset
            async def other(key):
                obs["bystander_calls"] += 1
                await asyncio.sleep(0.25)
                return ("other", key)

            async def bystander():
                for at in (0.125, 1.125):
                    await asyncio.sleep(max(0.0, at - loop.time()))
                    for k in sorted({c["key"] for c in callers}):
                        try:
                            r = await other(k)
                        except BaseException as exc:  # noqa: BLE001 - the observation
                            r = exc
                        if r != ("other", k):
                            obs["bystander_bad"].append((k, repr(r)))

            extra.append(loop.create_task(bystander()))

        async def caller(i):
            c = callers[i]
            if c["at"] > 0:
                await asyncio.sleep(c["at"])
            call = {"i": i, "key": c["key"], "t": loop.time(), "started": [], "ord": len(obs["invs"]) + len(obs["calls"])}
            obs["calls"].append(call)
            current[i] = call
            try:
                if case.get("in_scope"):
                    # callers living in their own scopes (one scope per request): the shared invocation belongs to no
                    # caller's scope - its failure or a caller's departure must not tear another caller's scope down
                    from haiway import ctx

                    async with ctx.scope(f"caller{i}"):
                        r = await fn(c["key"])
                else:
                    r = await fn(c["key"])
                obs["results"][i] = ("val", r.inv if isinstance(r, (Val, RetExc)) else repr(r), loop.time())
            except (CErr, RetExc) as exc:
                obs["results"][i] = ("err", exc.args[0], loop.time())
            except asyncio.CancelledError:
                obs["results"][i] = ("cancelled", None, loop.time())
                raise

        for i in range(len(callers)):
            tasks.append(loop.create_task(caller(i)))
        await asyncio.wait(tasks)
        # let every invocation finish
        await asyncio.sleep(max([s["dur"] for s in invs] + [0]) + 1)
        if extra:
            await asyncio.wait(extra)
        return None

    hooks = {}
    for who, k in inject or []:
        def hook(loop, who=who, k=k):
            if who < len(tasks) and not tasks[who].done():
                obs["cancelled_at"][who] = (k, loop.time())
                tasks[who].cancel()
            else:
                obs["cancelled_at"].setdefault(who, None)
        hooks[k] = hook
    res = vloop.run(main, hooks=hooks)
    if res.outcome == "raise":
        raise res.value
    obs["hang"] = res.outcome == "hang"
    obs["iterations"] = res.iterations
    obs["errors"] = res.errors
    return obs


def judge(case, obs, out: Outcome, inject):
    limit, exp = case["limit"], case["exp"]
    tag = "cancel" if inject else "nocancel"
    if obs["hang"]:
        out.violate("term", f"C13.term/hang/{tag}", f"inject={inject}")
        return
    for k, r in obs["bystander_bad"][:2]:
        out.violate("share", f"C13.share/another-cached-function-received-a-foreign-result/{tag}", f"second function called with key {k} got {r}")
    invs = obs["invs"]
    # attribute new invocations to calls: an invocation started at call time by that call
    calls = obs["calls"]
    for ci, call in enumerate(calls):
        started = call["started"]
        if len(started) > 1:
            out.violate("share", f"C13.share/one-call-started-several-invocations/{tag}", f"{call}")
    for ci, call in enumerate(calls):
        i, key, t = call["i"], call["key"], call["t"]
        res = obs["results"].get(i)
        was_cancelled = obs["cancelled_at"].get(i) is not None
        # which invocation did this call use?
        used = None
        if call["started"]:
            used = call["started"][0]
            if invs[used]["key"] != key:
                out.violate("share", f"C13.outcome/wrong-key-invocation/{tag}", f"{call} {invs[used]}")
        # sharing obligation
        prev = None
        for pj in range(ci - 1, -1, -1):
            if calls[pj]["key"] == key and calls[pj].get("used") is not None:
                prev = calls[pj]
                break
        if prev is not None:
            others = {c["key"] for c in calls[calls.index(prev) + 1 : ci] if c["key"] != key}
            pinv = invs[prev["used"]]
            age = t - pinv["start"]
            fresh = exp is None or age < exp
            if exp is not None and age == exp:
                out.unspecified.append("age==expiration")
            if len(others) < limit and fresh:
                if call["started"]:
                    state = "in-flight" if (pinv["finished"] is None or pinv["finished"] > t) else "finished"
                    out.violate(
                        "share",
                        f"C13.share/new-invocation-while-entry-valid/{state}/{tag}",
                        f"call {call} although invocation {prev['used']} ({pinv}) is cached, {len(others)} other keys since, age {age} exp {exp}; inject={inject}",
                    )
                elif used is None:
                    used = prev["used"]
        if used is None and res is not None and res[0] in ("val", "err") and isinstance(res[1], int):
            used = res[1]  # not obligated: identified by the outcome it received
        if used is None and not call["started"]:
            # joined something we cannot identify (cancelled before delivery): take the latest same-key invocation that
            # EXISTED when the call was made (order of events, not time: several calls share one instant)
            for k in range(len(invs) - 1, -1, -1):
                if invs[k]["key"] == key and invs[k]["ord"] < call["ord"]:
                    used = k
                    break
        call["used"] = used
        if was_cancelled or res is None or res[0] == "cancelled":
            if not was_cancelled:
                out.violate(
                    "others",
                    f"C13.others/uncancelled-caller-ended-cancelled/{tag}",
                    f"caller {i} result {res} inject={inject} calls={calls} invs={invs}",
                )
            continue
        kind, inv_id, t_res = res
        if not isinstance(inv_id, int) or inv_id >= len(invs):
            out.violate("outcome", f"C13.outcome/foreign-value/{tag}", f"{res}")
            continue
        inv = invs[inv_id]
        if inv["key"] != key:
            out.violate("outcome", f"C13.outcome/wrong-key-invocation/{tag}", f"caller {i} key {key} got outcome of invocation {inv_id} {inv}")
        if used is not None and inv_id != used:
            out.violate("outcome", f"C13.outcome/not-the-joined-invocation/{tag}", f"caller {i} joined {used} got {inv_id}; inject={inject}")
        spec = case["invs"][inv_id % len(case["invs"])]
        if (spec["out"] == "exc") != (kind == "err"):
            out.violate("outcome", f"C13.outcome/wrong-kind/{tag}", f"{res} spec {spec}")
        if exp is not None and t - inv["start"] > exp:
            out.violate("outcome", f"C13.outcome/expired-entry-served/{tag}", f"call at {t}, invocation started {inv['start']}, exp {exp}")
        if inv["finished"] is not None:
            expect_t = max(t, inv["finished"])
            if t_res != expect_t:
                out.violate(
                    "outcome",
                    f"C13.outcome/delivered-at-wrong-time/{tag}",
                    f"caller {i} called {t}, invocation finished {inv['finished']}, delivered {t_res}; inject={inject}",
                )
    for k, inv in enumerate(invs):
        if inv["cancel_seen"]:
            out.violate("shield", f"C13.shield/invocation-observed-cancellation/{tag}", f"invocation {k} {inv}; inject={inject}")
        elif inv["finished"] is None:
            out.violate("shield", f"C13.shield/invocation-never-finished/{tag}", f"invocation {k} {inv}; inject={inject}")
    # callers cancelled by us must end cancelled only if still running; nothing to assert for them
    bad = [e for e in obs["errors"] if "never retrieved" not in str(e.get("message", ""))]
    if bad:
        out.violate("clean", f"C13.clean/loop-error/{tag}", "; ".join(f"{x.get('message')}: {x.get('exception')!r}" for x in bad)[:500])


def run_case(case) -> Outcome:
    out = Outcome()
    dry = execute(case, None)
    judge(case, dry, out, None)
    runs = 1
    classes = set()
    # classification from the dry run
    invs, calls = dry["invs"], dry["calls"]
    overlap = False
    for k, inv in enumerate(invs):
        fin = inv["finished"] if inv["finished"] is not None else float("inf")
        joined = [c for c in calls if c.get("used") == k and c["t"] < fin]
        if len(joined) >= 2:
            overlap = True
        # expiry / eviction while in flight
        if case["exp"] is not None and fin - inv["start"] > case["exp"]:
            classes.add("expiry-or-eviction-in-flight")
        others = {c["key"] for c in calls if inv["start"] < c["t"] < fin and c["key"] != inv["key"]}
        if len(others) >= case["limit"]:
            classes.add("expiry-or-eviction-in-flight")
    if overlap:
        classes.add("overlap")
    if not out.violations:
        if case.get("inject") is not None:
            plans = [case["inject"]]
        else:
            plans = [[[who, k]] for who in range(len(case["callers"])) for k in range(1, dry["iterations"] + 1)]
        for plan in plans:
            obs = execute(case, plan)
            runs += 1
            before = len(out.violations)
            judge(case, obs, out, plan)
            # was an invocation in flight at the injection?
            for who, info in obs["cancelled_at"].items():
                if info is not None:
                    t = info[1]
                    if any(i["start"] <= t and (i["finished"] is None or i["finished"] >= t) for i in obs["invs"]):
                        classes.add("cancel-in-flight")
            if len(out.violations) > before:
                break
    out.counts = {"executions": runs}
    out.classes = sorted(classes)
    out.nontrivial = overlap and ("cancel-in-flight" in classes or "expiry-or-eviction-in-flight" in classes)
    return out


def strategy(tier):
    @st.composite
    def cases(draw):
        limit = draw(st.sampled_from([1, 1, 2]))
        ninv = draw(st.integers(1, 3))
        invs = [
            {"dur": draw(st.sampled_from([0, 0.5, 1, 2, 3])), "out": draw(st.sampled_from(["value", "value", "exc", "retexc"]))}
            for _ in range(ninv)
        ]
        exp = draw(st.sampled_from([None, None, 0.5, 1, 1.5]))
        n = draw(st.integers(2, 4 if tier == "quick" else 5))
        nkeys = draw(st.sampled_from([1, 2, 2, 3]))
        callers = []
        for _ in range(n):
            callers.append({"key": draw(st.integers(0, nkeys - 1)), "at": draw(st.sampled_from([0, 0, 0.25, 0.5, 0.75, 1, 1.25, 2, 2.5, 3.5]))})
        case = {"limit": limit, "exp": exp, "method": draw(st.booleans()), "callers": callers, "invs": invs, "inject": None, "bystander": draw(st.integers(0, 2)) == 0, "in_scope": draw(st.integers(0, 2)) == 0}
        if tier == "thorough" and draw(st.booleans()):
            # generated double fault (single faults are enumerated for every program anyway)
            case["inject"] = [
                [draw(st.integers(0, n - 1)), draw(st.integers(1, 40))],
                [draw(st.integers(0, n - 1)), draw(st.integers(1, 40))],
            ]
            if case["inject"][0][1] == case["inject"][1][1]:
                case["inject"] = case["inject"][:1]
        return case

    @st.composite
    def stale_completion(draw):
        """invocation #0 outlives its expiration; a second caller arrives after expiry and starts #1; #0 then completes
        while #1 is in flight; a third caller arriving now must still share #1"""
        exp = draw(st.sampled_from([1, 1.5, 2]))
        d0 = exp + draw(st.sampled_from([0.5, 1]))
        t_b = exp + 0.25  # after #0's entry expired, before #0 completes
        d1 = draw(st.sampled_from([2, 3]))
        t_c = d0 + draw(st.sampled_from([0.25, 0.5]))  # after #0 completed, while #1 is in flight and unexpired
        callers = [{"key": 0, "at": 0}, {"key": 0, "at": t_b}, {"key": 0, "at": t_c}]
        if draw(st.booleans()):
            callers.append({"key": draw(st.integers(0, 1)), "at": draw(st.sampled_from([0, 0.5, t_c + 0.25]))})
        return {
            "limit": draw(st.sampled_from([1, 2])),
            "exp": exp,
            "method": draw(st.booleans()),
            "callers": callers,
            "invs": [{"dur": d0, "out": draw(st.sampled_from(["value", "exc"]))}, {"dur": d1, "out": "value"}, {"dur": 0.5, "out": "value"}],
            "inject": None,
        }

    @st.composite
    def evict_then_rejoin(draw):
        """key a is cached at t0, evicted by key b (limit 1), called again at t1 (a new invocation, long running); a
        caller arriving after t0+exp but before t1+exp must JOIN that invocation: nothing that belongs to the evicted
        first entry (its expiry deadline, its completion) may touch the newer one"""
        exp = draw(st.sampled_from([1, 1.5, 2]))
        t1 = draw(st.sampled_from([0.5, 0.75]))
        t_join = exp + draw(st.sampled_from([0.125, 0.25]))  # t0+exp < t_join < t1+exp
        callers = [{"key": 0, "at": 0}, {"key": 1, "at": 0.25}, {"key": 0, "at": t1}, {"key": 0, "at": t_join}]
        if draw(st.booleans()):
            callers.append({"key": 0, "at": t_join + 0.125})
        return {
            "limit": 1,
            "exp": exp,
            "method": draw(st.booleans()),
            "callers": callers,
            "invs": [{"dur": draw(st.sampled_from([0, 0.125])), "out": "value"}, {"dur": draw(st.sampled_from([0, 0.125])), "out": "value"},
                     {"dur": exp + 1, "out": draw(st.sampled_from(["value", "exc"]))}, {"dur": 0.5, "out": "value"}],
            "inject": None,
        }

    @st.composite
    def two_late(draw):
        """invocation #0 outlives its expiration and is STILL running while two (or three) further callers of the key
        arrive one after another: the first of them starts #1, the others must join #1"""
        exp = draw(st.sampled_from([0.5, 1, 1.5]))
        d0 = exp + draw(st.sampled_from([2, 3]))
        late = [exp + 0.25, exp + 0.5] + ([exp + 0.75] if draw(st.booleans()) else [])
        callers = [{"key": 0, "at": 0}] + [{"key": 0, "at": t} for t in late]
        return {
            "limit": draw(st.sampled_from([1, 2])),
            "exp": exp,
            "method": draw(st.booleans()),
            "callers": callers,
            "invs": [{"dur": d0, "out": draw(st.sampled_from(["value", "exc"]))}, {"dur": draw(st.sampled_from([exp - 0.25, 3])), "out": "value"},
                     {"dur": 0.5, "out": "value"}, {"dur": 0.5, "out": "value"}],
            "inject": None,
            "in_scope": draw(st.booleans()),
        }

    @st.composite
    def pending_at_lru_end(draw):
        """the least recently used key is still IN FLIGHT when the cache overflows while newer keys have completed: the
        eviction order is the order of use - which entries happen to be finished does not matter"""
        limit = draw(st.sampled_from([2, 2, 3]))
        callers = [{"key": 0, "at": 0}]  # long running
        t = 0.25
        for k in range(1, limit + 1):
            callers.append({"key": k, "at": t})
            t += 0.25
        # key 1 .. limit-1 are still among the `limit` most recently used (key 0 is the one to go): calling them again must hit
        again = draw(st.integers(2 if limit > 2 else 1, limit))
        callers.append({"key": again if again < limit + 1 else limit, "at": t})
        invs = [{"dur": 5, "out": "value"}] + [{"dur": 0, "out": "value"} for _ in range(limit)] + [{"dur": 0, "out": "value"}]
        return {"limit": limit, "exp": None, "method": draw(st.booleans()), "callers": callers, "invs": invs, "inject": None, "in_scope": draw(st.booleans())}

    @st.composite
    def expired_neighbour(draw):
        """a full cache where one key has EXPIRED and is computed anew while the other key's invocation - newer, unexpired -
        is still in flight: replacing the expired entry is not an insertion of one more key, nobody is evicted for it and
        the in-flight invocation keeps being shared"""
        limit = draw(st.sampled_from([2, 2, 3]))
        callers = [{"key": 0, "at": 0}]  # done at once, expires at 1.0
        if limit == 3:
            callers.append({"key": 2, "at": 0.5})
        callers += [
            {"key": 1, "at": 0.75},  # long running
            {"key": 0, "at": 0.875},  # hit: key 1 is now the least recently used one
            {"key": 0, "at": 1.125},  # expired: a new invocation replaces the entry
            {"key": 1, "at": draw(st.sampled_from([1.25, 1.5]))},  # unexpired, in flight: joins
        ]
        invs = [{"dur": 0, "out": "value"}, *([{"dur": 0, "out": "value"}] if limit == 3 else []), {"dur": 5, "out": "value"}, {"dur": 0, "out": "value"}, {"dur": 0, "out": "value"}]
        return {"limit": limit, "exp": 1, "method": draw(st.booleans()), "callers": callers, "invs": invs, "inject": None, "in_scope": draw(st.booleans())}

    @st.composite
    def evicted_then_finished(draw):
        """an invocation whose entry was evicted FINISHES while the key that displaced it is still in flight: finishing changes
        nothing about who is cached - the next caller of the in-flight key joins it"""
        limit = draw(st.sampled_from([1, 1, 2]))
        callers = [{"key": 0, "at": 0}]  # runs until 1.0
        invs = [{"dur": 1, "out": draw(st.sampled_from(["value", "value", "exc"]))}]
        t = 0.25
        for k in range(1, limit + 1):  # each displaces the oldest entry; all long running
            callers.append({"key": k, "at": t})
            invs.append({"dur": 5, "out": "value"})
            t += 0.25
        for k in range(1, limit + 1):  # after key 0's invocation has finished (1.0): join the in-flight ones
            callers.append({"key": k, "at": 1.5})
        return {"limit": limit, "exp": None, "method": draw(st.booleans()), "callers": callers, "invs": invs, "inject": None, "in_scope": draw(st.booleans())}

    return st.one_of(cases(), cases(), cases(), stale_completion(), evict_then_rejoin(), two_late(), pending_at_lru_end(), expired_neighbour(), evicted_then_finished())


def budget(tier):
    return {"examples": 300, "shards": 1} if tier == "quick" else {"examples": 1500, "shards": 16}
