"""C04 - State instances are immutable values with copy-on-update semantics.

Case: {"cls": ..., "args": {name: value-AST|null}, "script": [op, ...]} (class and values as in C05, all conforming)
ops: setattr | delattr | mutate_arg | updated | copy | deepcopy | eq"""

from __future__ import annotations

import collections
import copy
from collections.abc import Mapping, Sequence, Set

from hypothesis import strategies as st

from haiway import MISSING, State
from hv import terms as TT
from hv.core import Outcome
from hv.props import c05

from typing import Literal as _Literal  # noqa: E402

PID = "C04"
LEVEL = "exploration"
TECHNIQUE = "generated classes and valid instances x generated scripts of mutation/update/copy/equality attempts; deep-frozen snapshot invariant and algebraic equality laws"
RULE = (
    "cases are (generated State class as in C05, conforming arguments built from mutable containers, script of up to 8 "
    "attempts: setattr/delattr, mutation of the original argument containers (top level and nested), updated() with "
    "valid / invalid / unknown names, copy, deepcopy, equality probes against itself, a twin, a one-attribute variant, "
    "a different class with the same attributes, a subclass, another specialisation); non-trivial = container-typed "
    "attribute whose original container is mutated, or an updated() that replaces some and keeps some attributes, or a "
    "cross-class comparison; distinct = distinct class+arguments+script"
)
RULE += '; an instance is compared both ways with its counterpart in every other specialisation of its generic class'
RULE += '; many other specialisations of the generic class may come and go before the same specialisation is asked for again'
RULE += '; an instance with a MISSING attribute is compared with one that has a value there'
RULE += '; nested mutation also through mapping values; a class with bounded type variables (enumerated)'
RULE += "; plain assignment to attributes that hold MISSING; aliases that spell their parameter like the class's type parameter"
RULE += '; rendering (str / repr / format) one of two equal instances; the same argument objects given again after a mutation'
LEVEL_TEXT = (
    "Invariant checking over generated histories: a deep-frozen snapshot of the instance must be unchanged after every "
    "attempt; updated() is compared attribute-by-attribute with the conformance oracle's stored form; equality is "
    "checked for reflexivity, symmetry, transitivity and against the 'same class and equal attributes' definition."
)
LEVEL_NOTE = "Trusted: hv.terms oracle and the snapshot function; only what the statement names is attempted (no object.__setattr__ tricks)."
ASSUMPTIONS = [
    "mutation-insensitivity is asserted only for values reached through Sequence/Set/frozenset/Mapping/tuple annotations; "
    "Any/Callable attributes keep the object they were given",
    "hashing is not claimed and not checked; updated(x=MISSING) is judged only for attributes without a class-level default (stored as MISSING when the annotation admits it, rejected otherwise)",
]
REQUIRED_CLASSES = ["mutate-original-container", "updated-partial", "cross-class-eq", "deepcopy", "setattr"]

_FRESH = [0]
CONTAINER_KINDS = {"seq", "tuple_var", "tuple_fixed", "set", "frozenset", "map"}


def _expand(t, env):
    k = t["t"]
    if k == "alias":
        return _expand(t["of"], env)
    if k == "alias_param":
        return _expand(t["body"], env.with_var(t["arg"]))
    if k == "var":
        return _expand(env.var, env)
    return t, env


def _convertible(t, env) -> bool:
    """does the annotation promise an immutable conversion of the (top-level) container?"""
    t, env = _expand(t, env)
    if t["t"] in CONTAINER_KINDS:
        return True
    if t["t"] == "optional":
        return _convertible(t["of"], env)
    if t["t"] == "union":
        # alternatives that can never accept a mutable container (None, scalars, enums, literals) do not matter
        alts = [_expand(x, env) for x in t["alts"]]
        rest = [(x, e) for x, e in alts if x["t"] not in _SCALAR_KINDS]
        return bool(rest) and all(_convertible(x, e) for x, e in rest)
    return False


_SCALAR_KINDS = {"none", "enum", "literal", "missing", *TT.NOMINAL}


def _first_element_term(t, env):
    """annotation of element 0 of a sequence-like annotation (None when the annotation is not sequence-like)"""
    t, env = _expand(t, env)
    k = t["t"]
    if k == "optional":
        return _first_element_term(t["of"], env)
    if k in ("seq", "tuple_var"):
        return t["of"], env
    if k == "tuple_fixed":
        return t["items"][0], env
    return None, env


def _first_value_term(t, env):
    """annotation of the VALUES of a mapping annotation (None when the annotation is not a mapping)"""
    t, env = _expand(t, env)
    k = t["t"]
    if k == "optional":
        return _first_value_term(t["of"], env)
    if k == "map":
        return t["v"], env
    return None, env


def freeze(x, depth=0):
    if depth > 12:
        return ("deep",)
    if isinstance(x, State):
        return ("state", type(x), tuple((k, freeze(v, depth + 1)) for k, v in x.as_dict().items()))
    if isinstance(x, (str, bytes)):
        return x
    if isinstance(x, Mapping):
        return ("map", tuple((freeze(k, depth + 1), freeze(v, depth + 1)) for k, v in x.items()))
    if isinstance(x, Set):
        return ("set", frozenset(freeze(e, depth + 1) for e in x))
    if isinstance(x, range):
        return ("seq", tuple(x))
    if isinstance(x, Sequence):
        return ("seq", tuple(freeze(e, depth + 1) for e in x))
    return ("obj", type(x), x if _hashable(x) else id(x))


def _hashable(x):
    try:
        hash(x)
        return True
    except TypeError:
        return False


def _mutate(obj, how) -> bool:
    """mutate a mutable container in place; returns whether something was changed"""
    backing = TT.PROXY_BACKING.get(id(obj))
    if backing is not None and backing[0] is obj:
        obj = backing[1]  # the dict behind a caller-supplied read-only view
    try:
        if isinstance(obj, list):
            if how == "clear" and obj:
                obj.clear()
                return True
            obj.append("intruder")
            return True
        if isinstance(obj, collections.deque):
            obj.append("intruder")
            return True
        if isinstance(obj, set):
            if how == "clear" and obj:
                obj.clear()
                return True
            obj.add("intruder")
            return True
        if isinstance(obj, dict):  # also OrderedDict
            if how == "clear" and obj:
                obj.clear()
                return True
            if how == "setitem" and obj:
                obj[next(iter(obj))] = "intruder"
                return True
            obj["intruder"] = "intruder"
            return True
    except Exception:  # noqa: BLE001
        return False
    return False


_BOUNDED_SRC = """from hv.termlib import *
class C0[Items: Sequence[int], Meta: Mapping[str, int]](State):
    items: Items
    meta: Meta
    n: int = 0
"""


def run_bounded(case) -> Outcome:
    """a generic State whose type variables have BOUNDS, used without and with subscription: the bound is the annotation
    that counts for an unsubscripted class - values are validated and made immutable against it like against any other"""
    out = Outcome()
    mod = TT.define(_BOUNDED_SRC + f"# {case['variant']}\n")
    C = mod.C0 if case["variant"] == "plain" else mod.C0[Sequence[int], Mapping[str, int]]
    items, meta = [1, 2], {"a": 1}
    x = C(items=items, meta=meta)
    snap = freeze(x)
    items.append(3)
    meta["b"] = 2
    if freeze(x) != snap:
        out.violate("immutable", f"C04.immutable/changed-after/mutation-of-original-argument/bounded-typevar-{case['variant']}", f"{x!r}")
    for name, how in (("items", lambda v: v.append(9)), ("meta", lambda v: v.__setitem__("z", 9))):
        try:
            how(getattr(x, name))
        except (AttributeError, TypeError):
            pass
        if freeze(x) != snap:
            out.violate("immutable", f"C04.immutable/stored-container-mutable/bounded-typevar-{case['variant']}", f"{name}: {getattr(x, name)!r}")
            break
    for bad in ({"items": [1, "x"]}, {"items": 5}, {"meta": {"a": "x"}}, {"meta": [1]}):
        try:
            y = x.updated(**bad)
        except Exception:  # noqa: BLE001 - rejected, as it must be
            continue
        out.violate("updated", f"C04.updated/nonconforming-accepted/bounded-typevar-{case['variant']}", f"updated({bad!r}) -> {y!r}")
    y = x.updated(n=1)
    if freeze(y.updated(n=0)) != snap or freeze(x) != snap:
        out.violate("updated", f"C04.updated/copy-differs/bounded-typevar-{case['variant']}", f"{y!r}")
    out.classes = ["bounded-type-variable"]
    out.nontrivial = True
    return out


def run_case(case) -> Outcome:
    if case.get("kind") == "bounded":
        return run_bounded(case)
    out = Outcome()
    cls = case["cls"]
    src = TT.class_source({**cls, "derived": False})  # (the derived-class variants belong to C05)
    if cls.get("fresh"):
        # a brand-new class per execution: anything the library remembers per class (validators, caches) starts from
        # scratch, so a history-dependent result is reproducible from the case alone
        _FRESH[0] += 1
        src += f"# fresh class {_FRESH[0]}\n"
    try:
        mod = TT.define(src)
        C = mod.C0
        if cls["generic"] and cls.get("targ") is not None:
            C = C[TT._targ_type(cls["targ"])]
    except Exception:  # noqa: BLE001 - class definition is C05's business
        out.unspecified.append("class-definition-failed")
        return out
    env = TT.Env(cls=C, targ=cls.get("targ"))
    terms = {a["name"]: a["term"] for a in cls["attrs"]}
    names = [a["name"] for a in cls["attrs"]]

    def build_args(args):
        return {n: TT.build(v, env) for n, v in args.items() if v is not None}

    try:
        originals = build_args(case["args"])
        x = C(**originals)
    except Exception:  # noqa: BLE001 - acceptance is C05's business; C04 is about valid instances
        out.unspecified.append("instance-not-constructible")
        return out
    snap = freeze(x)
    # decided NOW: later steps may mutate the argument objects (an emptied list is deep-copyable again, the instance - rightly -
    # still holds what it was given)
    args_deepcopyable = _args_deepcopyable(originals)
    classes = set()
    churned = [0]

    def unchanged(what):
        now = freeze(x)
        if now != snap:
            out.violate("immutable", f"C04.immutable/changed-after/{what}", f"{src}args={case['args']}\nbefore={snap}\nafter={now}")
            return False
        return True

    for op in case["script"]:
        o = op["o"]
        if o in ("setattr", "delattr"):
            name = names[op["attr"] % len(names)] if not op.get("unknown") else "zz_unknown"
            classes.add("setattr")
            try:
                if o == "setattr":
                    setattr(x, name, TT.build(op["val"], env))
                else:
                    delattr(x, name)
                out.violate("immutable", f"C04.immutable/{o}-accepted", f"{src}{o} {name}")
            except Exception:  # noqa: BLE001 - rejection is the expected behaviour
                pass
            unchanged(o)
        elif o == "rebuild":
            # the very same argument OBJECTS are given again (a buffer that is filled, handed over, refilled and handed over
            # again) - to the constructor or to updated(): the new instance is what fresh, equal arguments would give
            import copy as _copy

            try:
                fresh_args = _copy.deepcopy(originals)
            except Exception:  # noqa: BLE001 - arguments that cannot be copied: no reference to compare with
                continue

            def attempt(make):
                try:
                    return ("ok", freeze(make()))
                except Exception as exc:  # noqa: BLE001 - rejection is an outcome
                    return ("rejected", type(exc).__name__)

            via_updated = op.get("via") == "updated"
            want = attempt(lambda: x.updated(**fresh_args) if via_updated else C(**fresh_args))
            try:
                again = _copy.deepcopy(fresh_args)
            except Exception:  # noqa: BLE001
                continue
            if attempt(lambda: x.updated(**again) if via_updated else C(**again)) != want:
                # values that only compare by identity (a plain object()): equal fresh arguments do not exist - no reference
                out.unspecified.append("rebuild-without-a-stable-reference")
                continue
            got = attempt(lambda: x.updated(**originals) if via_updated else C(**originals))
            classes.add("same-argument-objects-again")
            if want[0] != got[0] or (want[0] == "ok" and want[1] != got[1]):
                sub = "updated" if via_updated else "construct"
                out.violate(sub, f"C04.{sub}/same-argument-objects-given-again-differ-from-equal-fresh-ones", f"{src}args={case['args']}\nwith the same objects: {got}\nwith equal fresh objects: {want}")
            unchanged("rebuild")
        elif o == "render":
            # the instance is rendered (logged, printed, shown in a debugger): looking at a value does not change it
            for fn in (str, repr, format):
                try:
                    fn(x)
                except Exception:  # noqa: BLE001 - how an instance renders is not the subject
                    pass
            classes.add("rendered")
            unchanged("render")
        elif o == "mutate_arg":
            name = names[op["attr"] % len(names)]
            obj = originals.get(name)
            if obj is None:
                continue
            t = terms[name]
            if not _convertible(t, env):
                out.unspecified.append("mutation-of-unconverted-annotation")
                continue
            target = obj
            if op.get("nested") and isinstance(obj, (list, tuple, collections.deque)) and obj:
                inner = obj[0]
                it, ee = _first_element_term(t, env)
                if it is not None and _convertible(it, ee):
                    target = inner
            elif op.get("nested") and isinstance(obj, Mapping) and obj:
                # a container that is a VALUE of the given mapping (the mapping itself may be read-only: a proxy)
                inner = next(iter(obj.values()))
                it, ee = _first_value_term(t, env)
                if it is not None and _convertible(it, ee):
                    target = inner
            if _mutate(target, op["how"]):
                classes.add("mutate-original-container")
                unchanged("mutation-of-original-argument")
        elif o == "updated":
            repl_ast = {names[int(k) % len(names)]: v for k, v in op["repl"].items()}
            try:
                repl = {n: TT.build(v, env) for n, v in repl_ast.items()}
            except Exception:  # noqa: BLE001
                continue
            confs = {n: TT.conforms(terms[n], v, env) for n, v in repl.items()}
            defaults = {a["name"]: a.get("default") for a in cls["attrs"]}
            if any(v is MISSING and defaults.get(n) is not None for n, v in repl.items()):
                # MISSING given for an attribute that has a class-level default: "use the default" and "store MISSING"
                # are both defensible readings - not judged
                out.unspecified.append("updated-with-MISSING-for-a-defaulted-attribute")
                continue
            kwargs = dict(repl)
            if op.get("unknown"):
                kwargs["zz_unknown"] = 1
            expect = TT.and3(confs.values())
            try:
                y = x.updated(**kwargs)
                err = None
            except Exception as exc:  # noqa: BLE001
                y, err = None, exc
            if expect is True and err is not None:
                out.violate("updated", "C04.updated/valid-replacement-rejected", f"{src}{repl_ast} -> {err!r}")
            elif expect is False and err is None:
                out.violate("updated", "C04.updated/invalid-replacement-accepted", f"{src}{repl_ast}")
            if y is not None:
                if type(y) is not type(x):
                    out.violate("updated", "C04.updated/class-changed", f"{type(y)} vs {type(x)}")
                if y is x and repl:
                    pass  # allowed only if nothing changes; checked attribute-wise below
                for n in names:
                    got = getattr(y, n, MISSING)
                    if n in repl and repl[n] is MISSING:
                        # an attribute without class default that admits Missing: naming it with MISSING stores MISSING
                        if confs[n] is True and got is not MISSING:
                            out.violate("updated", "C04.updated/replacement-not-stored/MISSING", f"{src}{n}: updated({n}=MISSING) -> {got!r}")
                    elif n in repl:
                        if confs[n] is True and TT.stored_ok(terms[n], repl[n], got, env) is False:
                            out.violate("updated", "C04.updated/replacement-not-stored", f"{src}{n}: {repl[n]!r} -> {got!r}")
                    else:
                        if freeze(got) != freeze(getattr(x, n, MISSING)):
                            out.violate("updated", "C04.updated/unnamed-attribute-changed", f"{src}{n}: {getattr(x, n, MISSING)!r} -> {got!r}")
                if hasattr(y, "zz_unknown"):
                    out.violate("updated", "C04.updated/unknown-name-stored", src)
                if 0 < len(repl) < len(names):
                    classes.add("updated-partial")
            unchanged("updated")
        elif o in ("copy", "deepcopy"):
            classes.add(o)
            try:
                y = copy.copy(x) if o == "copy" else copy.deepcopy(x)
            except Exception as exc:  # noqa: BLE001
                if o == "deepcopy" and not args_deepcopyable:
                    # the user's own payload (e.g. a dict_keys view kept as-is by an Any annotation) cannot be deep
                    # copied by Python itself: not the library's doing
                    out.unspecified.append("argument-not-deepcopyable-in-plain-python")
                    unchanged(o)
                    continue
                kinds = sorted(set().union(*[TT.term_kinds(t) for t in terms.values()]) & {"map", "any", "callable", "protocol"})
                out.violate("copy", f"C04.copy/{o}-raised/{type(exc).__name__}/{'+'.join(kinds) or 'plain'}", f"{src}args={case['args']}: {exc!r}")
                unchanged(o)
                continue
            lost = [n for n in names if hasattr(x, n) and not hasattr(y, n)]
            if lost:
                out.violate("copy", f"C04.copy/{o}-attribute-lost", f"{src}attributes {lost} of {x!r} are missing in the {o}")
            if type(y) is not type(x):
                out.violate("copy", f"C04.copy/{o}-class-changed", f"{type(y)}")
            else:
                try:
                    if _identity_compared(snap) and o == "deepcopy":
                        out.unspecified.append("deepcopy-of-identity-compared-payload")
                    elif not (y == x and x == y):
                        out.violate("copy", f"C04.copy/{o}-not-equal", f"{src}{x!r} vs {y!r}")
                except Exception as exc:  # noqa: BLE001
                    out.violate("eq", "C04.eq/raised", repr(exc))
                if freeze(y) != snap and not _identity_compared(snap):
                    out.violate("copy", f"C04.copy/{o}-different-content", f"{src}{x!r} vs {y!r}")
            unchanged(o)
        elif o == "inplace":
            # try to change the value THROUGH the stored attribute containers of the instance or of a (deep) copy
            classes.add("inplace-attempt")
            try:
                target = {"self": lambda: x, "copy": lambda: copy.copy(x), "deepcopy": lambda: copy.deepcopy(x),
                          "updated": lambda: x.updated()}[op["target"]]()  # fmt: skip
            except Exception:  # noqa: BLE001 - failures of copy itself are judged by the copy ops
                continue
            before = freeze(target)
            for n in names:
                if not _convertible(terms[n], env):
                    continue
                _poke(getattr(target, n, MISSING))
                first, _e = _first_element_term(terms[n], env)
                stored = getattr(target, n, MISSING)
                if first is not None and _convertible(first, _e) and isinstance(stored, Sequence) and not isinstance(stored, (str, bytes)) and len(stored) > 0:
                    _poke(stored[0])
            if freeze(target) != before:
                out.violate("immutable", f"C04.immutable/stored-container-mutable/{op['target']}", f"{src}args={case['args']}\nbefore={before}\nafter={freeze(target)}")
            unchanged("inplace")
        elif o == "churn":
            # many OTHER specialisations of the same generic class come and go (a long-running process)
            if cls["generic"]:
                for i in range(op["n"]):
                    mod.C0[_Literal[f"churn-{churned[0] + i}"]]  # distinct, supported type arguments
                churned[0] += op["n"]
                classes.add("many-other-specialisations-in-between")
        elif o == "eq":
            other_kind = op["other"]
            y = None
            expect_equal = None
            try:
                if other_kind == "self":
                    y, expect_equal = x, True
                elif other_kind == "twin":
                    C_again = C
                    if cls["generic"] and cls.get("targ") is not None:
                        # the specialisation is asked for AGAIN (`Box[int]` written at another place): as long as the first
                        # one is alive it is the same class, however many other specialisations were made in between
                        C_again = mod.C0[TT._targ_type(cls["targ"])]
                        if C_again is not C:
                            out.violate("eq", "C04.eq/same-specialisation-is-another-class", f"{src}{C!r} vs {C_again!r} (after {churned[0]} other specialisations)")
                    y, expect_equal = C_again(**build_args(case["args"])), True
                elif other_kind == "diff1":
                    n = names[op.get("attr", 0) % len(names)]
                    alt = TT.build(op["val"], env) if op.get("val") is not None else None
                    if alt is None or TT.conforms(terms[n], alt, env) is not True:
                        continue
                    y = x.updated(**{n: alt})
                    # "all attribute values are equal" is Python equality (False == 0), not the type-aware snapshot
                    expect_equal = bool(getattr(y, n, MISSING) == getattr(x, n, MISSING))
                elif other_kind == "otherclass":
                    mod2 = TT.define(src + "# a second class with the same attributes\n")
                    C2 = mod2.C0
                    if cls["generic"] and cls.get("targ") is not None:
                        C2 = C2[TT._targ_type(cls["targ"])]
                    y, expect_equal = C2(**build_args(case["args"])), False
                    classes.add("cross-class-eq")
                elif other_kind == "subclass":
                    Sub = _subclass_of(C)
                    y, expect_equal = Sub(**build_args(case["args"])), False
                    classes.add("cross-class-eq")
                elif other_kind == "otherspec":
                    if not cls["generic"]:
                        continue
                    base = mod.C0
                    others = [t for t in [None, *TT.TARGS] if t != cls.get("targ")]
                    o2 = others[op.get("attr", 0) % len(others)]
                    C2 = base if o2 is None else base[TT._targ_type(o2)]
                    y, expect_equal = C2(**build_args(case["args"])), False
                    classes.add("cross-class-eq")
            except Exception:  # noqa: BLE001 - the comparison partner could not be built (e.g. Self-typed attrs)
                continue
            if y is None:
                continue
            if other_kind == "otherspec":
                # ... and every OTHER specialisation that accepts the same arguments as well (related arguments - Any, a
                # subclass - are the interesting partners): instances of different classes are never equal, either way
                for o3 in [t for t in [None, *TT.TARGS] if t != cls.get("targ")]:
                    try:
                        C3 = mod.C0 if o3 is None else mod.C0[TT._targ_type(o3)]
                        y3 = C3(**build_args(case["args"]))
                    except Exception:  # noqa: BLE001 - these arguments do not fit that specialisation
                        continue
                    try:
                        a3, b3 = (x == y3), (y3 == x)
                    except Exception as exc:  # noqa: BLE001
                        out.violate("eq", f"C04.eq/raised/{other_kind}", f"{src}{exc!r}")
                        continue
                    if bool(a3) != bool(b3):
                        out.violate("eq", f"C04.eq/asymmetric/{other_kind}", f"{src}x==y {a3}, y==x {b3}; x={x!r} ({type(x).__name__}) y={y3!r} ({type(y3).__name__})")
                    elif a3:
                        out.violate("eq", f"C04.eq/equal-although-different/{other_kind}", f"{src}x={x!r} ({type(x).__name__}) y={y3!r} ({type(y3).__name__})")
            try:
                a, b = (x == y), (y == x)
            except Exception as exc:  # noqa: BLE001
                out.violate("eq", f"C04.eq/raised/{other_kind}", f"{src}{exc!r}")
                continue
            if bool(a) != bool(b):
                out.violate("eq", f"C04.eq/asymmetric/{other_kind}", f"{src}x==y {a}, y==x {b}; x={x!r} y={y!r}")
            if other_kind == "self" and not a:
                out.violate("eq", "C04.eq/not-reflexive", f"{src}{x!r}")
            if expect_equal is not None and bool(a) != expect_equal and not (expect_equal and _identity_compared(snap)):
                out.violate(
                    "eq",
                    f"C04.eq/{'unequal-although-same-class-and-values' if expect_equal else 'equal-although-different'}/{other_kind}",
                    f"{src}x={x!r} ({type(x).__name__}) y={y!r} ({type(y).__name__})",
                )
            if other_kind == "twin" and a:
                # transitivity on (x, twin, twin2)
                z = C(**build_args(case["args"]))
                if (y == z) and not (x == z):
                    out.violate("eq", "C04.eq/not-transitive", src)
            unchanged("eq")
    container_attr = any(_convertible(t, env) for t in terms.values())
    out.classes = sorted(classes)
    out.nontrivial = (container_attr and "mutate-original-container" in classes) or "updated-partial" in classes or "cross-class-eq" in classes
    out.sample = {"src": src, "targ": cls.get("targ"), "args": case["args"], "script": case["script"]}
    return out


def _type_twin(v):
    """a value AST that compares == to v but has a different type (or None)"""
    if v is None:
        return None
    k = v["v"]
    if k == "bool":
        return {"v": "int", "x": int(v["x"])}
    if k == "int" and -(2**31) < v["x"] < 2**31:
        return {"v": "bool", "x": bool(v["x"])} if v["x"] in (0, 1) else {"v": "float", "x": float(v["x"])}
    if k == "float" and float(v["x"]).is_integer() and abs(v["x"]) < 2**31:
        return {"v": "int", "x": int(v["x"])}
    return None


def _poke(v):
    """attempt an in-place change of a stored container; read-only containers refuse (any exception is fine)"""
    for attempt in (
        lambda: v.__setitem__("intruder", "intruder"),
        lambda: v.append("intruder"),
        lambda: v.add("intruder"),
        lambda: v.__setitem__(0, "intruder"),
        lambda: v.clear(),
    ):
        try:
            attempt()
        except Exception:  # noqa: BLE001,S110
            pass


def _args_deepcopyable(originals) -> bool:
    for v in originals.values():
        try:
            copy.deepcopy(v)
        except Exception:  # noqa: BLE001
            return False
    return True


def _identity_compared(frozen) -> bool:
    """does the snapshot contain objects that compare by identity and are re-created by deepcopy (e.g. object())?
    then a deep copy cannot be equal and the equality expectation is dropped"""
    import types as _t

    if isinstance(frozen, tuple):
        if len(frozen) == 3 and frozen[0] == "obj" and isinstance(frozen[1], type):
            ty = frozen[1]
            return ty.__eq__ is object.__eq__ and ty not in (_t.FunctionType, _t.BuiltinFunctionType, type)
        return any(_identity_compared(f) for f in frozen)
    if isinstance(frozen, frozenset):
        return any(_identity_compared(f) for f in frozen)
    return False


_SUBS: dict = {}


def _subclass_of(C):
    if C not in _SUBS:
        if len(_SUBS) > 300:
            _SUBS.clear()
        _SUBS[C] = type(C)("Sub" + C.__name__.replace("[", "_").replace("]", ""), (C,), {"__module__": C.__module__})
    return _SUBS[C]


def strategy(tier):
    @st.composite
    def cases(draw):
        cls, _ = c05.gen_class(draw, broken_defaults=False, min_attrs=draw(st.sampled_from([1, 2, 2])))
        args, _ = c05.gen_args(draw, cls, "good", omit_required=False)
        # an attribute whose annotation admits Missing and that has NO class-level default may simply be left out: the
        # instance then holds MISSING for it (and copies must hold it too)
        for a in cls["attrs"]:
            t = a["term"]
            admits = t["t"] == "missing" or (t["t"] == "union" and any(x["t"] == "missing" for x in t["alts"]))
            if admits and a.get("default") is None and draw(st.booleans()):
                args[a["name"]] = None
        attrs = cls["attrs"]
        ctx = {"targ": cls["targ"], "self_attrs": attrs}
        n = len(attrs)
        idx = st.integers(0, n - 1)

        def good_for(i):
            return TT.gen_value(draw, attrs[i]["term"], ctx)

        script = []
        rebuild_after = [False]
        for _ in range(draw(st.integers(3, 8))):
            if rebuild_after[0]:
                rebuild_after[0] = False
                script.append({"o": "rebuild", "via": draw(st.sampled_from(["construct", "updated"]))})
            kind = draw(st.sampled_from(["setattr", "delattr", "mutate_arg", "mutate_arg", "updated", "updated", "copy", "deepcopy", "eq", "eq", "inplace", "render", *(["churn"] if cls["generic"] else [])]))
            if kind == "mutate_arg" and draw(st.booleans()):
                rebuild_after[0] = True
            if kind == "render":
                script.append({"o": "render"})
                script.append({"o": "eq", "other": "twin", "attr": 0, "val": None})
                continue
            if kind == "churn":
                script.append({"o": "churn", "n": draw(st.sampled_from([3, 40, 140, 300]))})
                script.append({"o": "eq", "other": "twin", "attr": 0, "val": None})
                continue
            if kind == "setattr":
                i = draw(idx)
                script.append({"o": "setattr", "attr": i, "val": good_for(i) or {"v": "int", "x": 1}, "unknown": draw(st.integers(0, 5)) == 0})
            elif kind == "delattr":
                script.append({"o": "delattr", "attr": draw(idx), "unknown": draw(st.integers(0, 5)) == 0})
            elif kind == "mutate_arg":
                script.append({"o": "mutate_arg", "attr": draw(idx), "how": draw(st.sampled_from(["append", "clear", "setitem"])), "nested": draw(st.booleans())})
            elif kind == "updated":
                which = draw(st.lists(idx, min_size=1 if n > 1 else 0, max_size=max(1, n - 1) if draw(st.integers(0, 3)) else n, unique=True))
                repl = {}
                for i in which:
                    cur = args.get(attrs[i]["name"]) or attrs[i].get("default")
                    twin = _type_twin(cur)
                    if twin is not None and draw(st.integers(0, 2)) == 0:
                        # equal under == but of another type (1.0 for 1, True for 1): conformance decides - an
                        # invalid one must be rejected, a valid one must really be applied
                        repl[str(i)] = twin
                        continue
                    if draw(st.integers(0, 4)) == 0:
                        r = TT.gen_broken(draw, attrs[i]["term"], ctx, TT.Env(cls=c05._Never, targ=cls["targ"]))
                        v = r[0] if r is not None else good_for(i)
                    else:
                        v = good_for(i)
                    if v is not None and v["v"] != "missing":
                        repl[str(i)] = v
                script.append({"o": "updated", "repl": repl, "unknown": draw(st.integers(0, 3)) == 0})
            elif kind in ("copy", "deepcopy"):
                script.append({"o": kind})
            elif kind == "inplace":
                script.append({"o": "inplace", "target": draw(st.sampled_from(["self", "copy", "deepcopy", "updated"]))})
            else:
                other = draw(st.sampled_from(["self", "twin", "diff1", "diff1", "otherclass", "subclass", "otherspec", *(["otherspec", "otherspec"] if cls["generic"] else [])]))
                i = draw(idx)
                script.append({"o": "eq", "other": other, "attr": i, "val": good_for(i) if other == "diff1" else None})
        for a in attrs:
            a.pop("default_ok", None)
        return {"cls": cls, "args": args, "script": script}

    T_ = TT.T
    V_ = TT.V
    ints = lambda *xs: [V_("int", x=x) for x in xs]  # noqa: E731
    # containers of containers given through immutable-looking outer carriers (tuples) with mutable inner ones
    nested_templates = [
        (T_("seq", of=T_("seq", of=T_("int"))), lambda outer: V_(outer, items=[V_("list", items=ints(1, 2)), V_("list", items=ints(3))])),
        (T_("seq", of=T_("map", k=T_("str"), v=T_("int"))), lambda outer: V_(outer, items=[V_("dict", items=[[V_("str", x="a"), V_("int", x=1)]])])),
        (T_("seq", of=T_("set", of=T_("int"))), lambda outer: V_(outer, items=[V_("set", items=ints(1, 2))])),
        (T_("tuple_var", of=T_("seq", of=T_("str"))), lambda outer: V_("tuple", items=[V_("list", items=[V_("str", x="a")])])),
        (T_("tuple_fixed", items=[T_("seq", of=T_("int")), T_("str")]), lambda outer: V_("tuple", items=[V_("list", items=ints(5)), V_("str", x="s")])),
        (T_("optional", of=T_("seq", of=T_("seq", of=T_("int")))), lambda outer: V_(outer, items=[V_("list", items=ints(7, 8))])),
        (T_("alias_param", body=T_("seq", of=T_("var")), arg=T_("seq", of=T_("int"))), lambda outer: V_(outer, items=[V_("list", items=ints(1))])),
        (T_("map", k=T_("str"), v=T_("int")), lambda outer: V_("mproxy", items=[[V_("str", x="a"), V_("int", x=1)]])),
        (T_("map", k=T_("str"), v=T_("seq", of=T_("int"))), lambda outer: V_("mproxy", items=[[V_("str", x="a"), V_("list", items=ints(1))]])),
        (T_("map", k=T_("str"), v=T_("seq", of=T_("int"))), lambda outer: V_("dict", items=[[V_("str", x="a"), V_("list", items=ints(1, 2))]])),
        (T_("map", k=T_("str"), v=T_("set", of=T_("int"))), lambda outer: V_("dict", items=[[V_("str", x="a"), V_("set", items=ints(1))]])),
        (T_("map", k=T_("str"), v=T_("map", k=T_("str"), v=T_("int"))), lambda outer: V_("dict", items=[[V_("str", x="a"), V_("dict", items=[[V_("str", x="b"), V_("int", x=1)]])]])),
        (T_("seq", of=T_("map", k=T_("str"), v=T_("map", k=T_("str"), v=T_("int")))),
         lambda outer: V_(outer, items=[V_("dict", items=[[V_("str", x="a"), V_("dict", items=[[V_("str", x="b"), V_("int", x=1)]])]])])),
    ]  # fmt: skip
    # the same with the inner container type hidden behind an optional / a union / an alias: the conversion promise is the
    # same wherever the container annotation sits in the element type
    def _wrapped(e, how):
        if how == "optional":
            return T_("optional", of=e)
        if how == "union_scalar_first":
            return T_("union", alts=[T_("str"), e])
        if how == "union_none_last":
            return T_("union", alts=[e, T_("none")], form="typing")
        return T_("alias", of=e)

    for term, mk in list(nested_templates):
        for how in ("optional", "union_scalar_first", "union_none_last", "alias"):
            if term["t"] == "seq":
                nested_templates.append((T_("seq", of=_wrapped(term["of"], how)), mk))
            elif term["t"] == "map" and term["v"]["t"] == "seq":
                nested_templates.append((T_("map", k=term["k"], v=_wrapped(term["v"], how)), mk))
    # unions whose LATER alternative would keep a container as it is: the stored form must not depend on what was
    # constructed before (validators are shared per class)
    history_templates = [
        (T_("union", alts=[T_("seq", of=T_("int")), T_("any")]), V_("list", items=ints(7, 8)), V_("str", x="s")),
        (T_("union", alts=[T_("seq", of=T_("str")), T_("protocol")]), V_("list", items=[V_("str", x="a")]), V_("impl")),
        (T_("union", alts=[T_("map", k=T_("str"), v=T_("int")), T_("any")]), V_("dict", items=[[V_("str", x="k"), V_("int", x=1)]]), V_("int", x=3)),
    ]

    @st.composite
    def history_cases(draw):
        term, value, other = draw(st.sampled_from(history_templates))
        attrs = [{"name": "a0", "term": term, "default": None}, {"name": "a1", "term": T_("int"), "default": V_("int", x=0)}]
        script = [
            {"o": "updated", "repl": {"0": other}, "unknown": False},  # an instance built with the later alternative
            {"o": "eq", "other": "twin", "attr": 0, "val": None},  # the same arguments again: must give an equal instance
            {"o": "updated", "repl": {"0": value}, "unknown": False},
            {"o": "inplace", "target": draw(st.sampled_from(["self", "updated", "deepcopy"]))},
        ]
        return {"cls": {"generic": False, "targ": None, "attrs": attrs, "fresh": True}, "args": {"a0": value, "a1": None}, "script": script}


    @st.composite
    def nested_cases(draw):
        term, mk = draw(st.sampled_from(nested_templates))
        value = mk(draw(st.sampled_from(["tuple", "tuple", "list"])))
        attrs = [{"name": "a0", "term": term, "default": None}, {"name": "a1", "term": T_("int"), "default": V_("int", x=0)}]
        via_update = draw(st.booleans())
        script = []
        if via_update:
            script.append({"o": "updated", "repl": {"0": value}, "unknown": False})
        script.append({"o": "mutate_arg", "attr": 0, "how": draw(st.sampled_from(["append", "clear", "setitem"])), "nested": True})
        script.append({"o": draw(st.sampled_from(["copy", "deepcopy", "eq"])), "other": "twin", "attr": 0, "val": None})
        script.append({"o": "mutate_arg", "attr": 0, "how": "append", "nested": draw(st.booleans())})
        script.append({"o": "inplace", "target": draw(st.sampled_from(["self", "copy", "deepcopy", "updated"]))})
        return {"cls": {"generic": False, "targ": None, "attrs": attrs, "fresh": True}, "args": {"a0": value, "a1": None}, "script": script}

    scalar_templates = [
        (T_("int"), V_("int", x=1)), (T_("int"), V_("int", x=7)), (T_("float"), V_("float", x=2.0)), (T_("bool"), V_("bool", x=True)),
        (T_("union", alts=[T_("bool"), T_("int")]), V_("int", x=1)), (T_("union", alts=[T_("int"), T_("float")]), V_("int", x=3)),
        (T_("literal", vals=[1, 2, 3]), V_("int", x=1)), (T_("any"), V_("int", x=0)), (T_("optional", of=T_("float")), V_("float", x=0.0)),
    ]  # fmt: skip

    @st.composite
    def twin_cases(draw):
        """updated() with values that compare == to the current ones but have another type"""
        picks = draw(st.lists(st.sampled_from(scalar_templates), min_size=1, max_size=3))
        attrs = [{"name": f"a{i}", "term": t, "default": None} for i, (t, _) in enumerate(picks)]
        args = {f"a{i}": v for i, (_, v) in enumerate(picks)}
        script = []
        for _ in range(draw(st.integers(1, 3))):
            which = draw(st.lists(st.integers(0, len(picks) - 1), min_size=1, max_size=len(picks), unique=True))
            repl = {}
            for i in which:
                tw = _type_twin(picks[i][1])
                repl[str(i)] = tw if tw is not None and draw(st.integers(0, 3)) > 0 else picks[i][1]
            script.append({"o": "updated", "repl": repl, "unknown": draw(st.booleans())})
            script.append({"o": "eq", "other": draw(st.sampled_from(["twin", "self", "diff1"])), "attr": 0, "val": _type_twin(picks[0][1])})
        return {"cls": {"generic": False, "targ": None, "attrs": attrs}, "args": args, "script": script}

    @st.composite
    def missing_cases(draw):
        """attributes that admit Missing, with and without a class-level default, given or left out: MISSING is an
        attribute VALUE like any other for copy / deepcopy / updated / equality"""
        terms = [
            T_("union", alts=[T_("int"), T_("missing")]),
            T_("missing"),
            T_("union", alts=[T_("seq", of=T_("int")), T_("missing")]),
            T_("union", alts=[T_("missing"), T_("str")]),
            T_("int"),  # a required attribute that does NOT admit Missing: updated(x=MISSING) must be rejected
        ]
        picks = draw(st.lists(st.sampled_from(terms), min_size=1, max_size=3))
        attrs, args = [], {}
        for i, t in enumerate(picks):
            if t["t"] == "int":
                attrs.append({"name": f"a{i}", "term": t, "default": None})
                args[f"a{i}"] = V_("int", x=3)
                continue
            with_default = draw(st.booleans())
            attrs.append({"name": f"a{i}", "term": t, "default": V_("missing") if with_default else None})
            given = draw(st.sampled_from(["omit", "omit", "value"]))
            alt = next((x for x in t.get("alts", []) if x["t"] != "missing"), None)
            if given == "value" and alt is not None:
                args[f"a{i}"] = {"int": V_("int", x=3), "str": V_("str", x="s"), "seq": V_("list", items=ints(1, 2))}[alt["t"]]
            else:
                args[f"a{i}"] = None
        which = draw(st.integers(0, len(picks) - 1))
        script = [{"o": draw(st.sampled_from(["copy", "deepcopy"]))}, {"o": "eq", "other": "twin", "attr": 0, "val": None},
                  {"o": "updated", "repl": {}, "unknown": draw(st.booleans())}, {"o": draw(st.sampled_from(["copy", "deepcopy"]))},
                  # naming an attribute with MISSING: stored as MISSING (no class default) - or rejected by a type that does not admit it
                  {"o": "updated", "repl": {str(which): V_("missing")}, "unknown": False},
                  {"o": "inplace", "target": draw(st.sampled_from(["copy", "deepcopy", "updated"]))}]  # fmt: skip
        # an instance whose attribute is MISSING and one that has a value there differ in that attribute: unequal, both ways
        for i, t in enumerate(picks):
            alt = next((x for x in t.get("alts", []) if x["t"] != "missing"), None)
            if args.get(f"a{i}") is None and alt is not None:
                val = {"int": V_("int", x=3), "str": V_("str", x="s"), "seq": V_("list", items=ints(1, 2))}[alt["t"]]
                script.append({"o": "eq", "other": "diff1", "attr": i, "val": val})
                # an attribute that holds MISSING is assigned, not "still to be assigned": plain assignment is rejected too
                script.append({"o": "setattr", "attr": i, "val": val, "unknown": False})
        return {"cls": {"generic": False, "targ": None, "attrs": attrs}, "args": args, "script": script}

    return st.one_of(cases(), cases(), cases(), nested_cases(), twin_cases(), history_cases(), missing_cases())


def budget(tier):
    return {"examples": 1500, "shards": 1} if tier == "quick" else {"examples": 10000, "shards": 16}


def enumerate_cases(tier):
    """fixed classes that the term generator does not produce: type variables with bounds (plain and subscripted use)"""
    yield {"kind": "bounded", "variant": "plain"}
    yield {"kind": "bounded", "variant": "subscripted"}


EXHAUSTIVE_MEANS = None
