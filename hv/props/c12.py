"""C12 - cache returns only right-key, unexpired results and retains the LRU `limit`.

Case: {"variant": sync|async|sync_method|async_method, "limit": 1..4, "exp": null|seconds, "ops": [op...]}
op: {"o":"call","r":slot,"form":[kind,i,j],"raise":bool} | {"o":"adv","dt":x} | {"o":"drop","r":slot}
History predicates (no LRU re-implementation): safety, hit obligation, capacity."""

from __future__ import annotations

import asyncio
import gc
import itertools
import weakref

from hypothesis import strategies as st

from hv import vloop
from hv.core import Outcome

PID = "C12"
LEVEL = "exploration"
TECHNIQUE = "stateful call/clock histories (plain-data op lists) checked with history predicates: safety, LRU hit obligation, weak-reference capacity bound"
RULE = (
    "cases are histories (<=60 steps) of calls / virtual-clock advances / receiver drops against one cached function per "
    "case (sync, async, sync method, async method; limit 1..4; expiration none/1/2.5/4), over an argument alphabet with "
    "==-equal differently typed values (1, 1.0, True, '1', ...), positional/keyword forms and 3 receiver slots; short "
    "histories over 3 keys + 2 advances are enumerated (quick: length<=4 for 16 configurations and <=5 for limit 2 without expiry, "
    "thorough: length<=6 for all 64); for limits 3 and 4 every call history over limit+1 unequal keys up to renaming (<=7 calls quick, <=8/9 thorough); non-trivial = history with a hit and an eviction or expiry; distinct = distinct configuration+history"
)
RULE += "; the function's result may be None for some keys"
RULE += '; enumerated histories with a raising miss in a full cache'
RULE += '; enumerated histories where the refresh of an expired key fails in a full cache'
RULE += '; enumerated pairs of two-keyword calls with swapped ==-equal values in the other order'
LEVEL_TEXT = (
    "Model-based history testing: every call's result is checked against predicates over the observed history (the tag "
    "of the returned object proves which invocation produced it), so wrong-key, stale, needlessly recomputed and "
    "over-retained entries are all visible. Short histories exhaustive, long ones sampled."
)
LEVEL_NOTE = (
    "Trusted: the rebinding of haiway.helpers.caching.monotonic to the virtual clock; CPython refcounting/gc for the "
    "capacity observation (weak references to returned objects)."
)
ASSUMPTIONS = [
    "at exactly age == expiration either answer is accepted",
    "positional vs keyword form and keyword order are different keys for the hit obligation (as in functools); safety "
    "still requires value-and-type equality of the bound arguments",
    "receivers use identity equality; whether a raised exception is cached is not judged",
    "the hit obligation counts every other key called in between (also failing calls), i.e. it is slightly weaker than exact LRU",
]
EXHAUSTIVE_MEANS = "all histories over 3 keys + 2 clock advances up to the stated length for the stated configurations; for limits 3 and 4 every call history over limit+1 pairwise-unequal keys up to renaming (quick: length <=7; thorough: <=8 / <=9, plus limit 3 with expiration and two clock advances at every pair of positions of 6-call histories)"
REQUIRED_CLASSES = ["hit", "eviction", "expiry", "typed-twins-in-play", "method-variant"]

ALPHA = [1, 1.0, True, "1", 2, 2.0, (1,), None]
VARIANTS = ["sync", "async", "sync_method", "async_method"]
EXPS = [None, 1, 2.5, 4]


class CacheErr(Exception):
    pass


class Box:
    __slots__ = ("tag", "serial", "__weakref__")

    def __init__(self, tag, serial):
        self.tag = tag
        self.serial = serial


def _same(a, b):
    return type(a) is type(b) and a == b


def _call_args(form):
    kind, i, j = form
    a, b = ALPHA[i % len(ALPHA)], ALPHA[j % len(ALPHA)]
    if kind == "pos":
        return (a,), {}, (a, None)
    if kind == "kw":
        return (), {"x": a}, (a, None)
    if kind == "pos2":
        return (a, b), {}, (a, b)
    if kind == "poskw":
        return (a,), {"y": b}, (a, b)
    if kind == "kw2":
        return (), {"x": a, "y": b}, (a, b)
    if kind == "kw2r":
        return (), {"y": b, "x": a}, (a, b)
    raise ValueError(kind)


def _key(serial, args, kwargs):
    return (
        serial,
        tuple((type(a).__name__, repr(a)) for a in args),
        tuple((k, type(v).__name__, repr(v)) for k, v in kwargs.items()),
    )


def run_case(case) -> Outcome:
    from haiway import cache

    out = Outcome()
    variant, limit, exp, ops = case["variant"], case["limit"], case["exp"], case["ops"]
    is_async = variant.startswith("async")
    is_method = variant.endswith("method")
    state = {"inv": 0, "serial": 0, "raise_next": False, "now": lambda: 0.0}
    live: "weakref.WeakSet[Box]" = weakref.WeakSet()
    sig = variant

    def impl(recv_serial, x, y):
        state["inv"] += 1
        if state["raise_next"]:
            raise CacheErr(state["inv"])
        if case.get("none_results") and type(x) is int:
            return None  # a function whose RESULT is None for some keys (a lookup that found nothing): cached like any other
        state["serial"] += 1
        b = Box((recv_serial, x, y, state["inv"], state["now"]()), state["serial"])
        live.add(b)
        return b

    kw = {"limit": limit}
    if exp is not None:
        kw["expiration"] = exp
    if case.get("bare"):
        # @cache without arguments: documented defaults limit=1, no expiration
        limit, exp = 1, None

    # ONE decorator object per case, applied to every function / method of the case (a reusable preset such as
    # `cached = cache(limit=8)` is ordinary code): each decorated function still owns its entries
    preset = None if case.get("bare") else cache(**kw)

    def deco(fn):
        return cache(fn) if preset is None else preset(fn)

    def impl_other(x, y):
        return Box((-1, x, y, -1, state["now"]()), -1)

    if is_method:
        if is_async:

            class Holder:
                def __init__(self, serial):
                    self.serial = serial

                @deco
                async def f(self, x, y=None):
                    return impl(self.serial, x, y)

                @deco
                async def g(self, x, y=None):  # a second cached method of the same class (same receivers, same arguments)
                    return impl_other(x, y)

        else:

            class Holder:  # type: ignore[no-redef]
                def __init__(self, serial):
                    self.serial = serial

                @deco
                def f(self, x, y=None):
                    return impl(self.serial, x, y)

                @deco
                def g(self, x, y=None):
                    return impl_other(x, y)

        recv_counter = itertools.count(1)
        receivers = [Holder(next(recv_counter)) for _ in range(3)]
    else:
        if is_async:

            @deco
            async def f(x, y=None):
                return impl(0, x, y)

        else:

            @deco
            def f(x, y=None):  # type: ignore[misc]
                return impl(0, x, y)

    # a second, independently decorated function (same configuration) called with the same arguments in between: the
    # two caches must not know of each other (entries, capacity, expiry)
    bystander = None
    if case.get("bystander"):
        impl2 = impl_other
        if is_async:

            @deco
            async def bystander(x, y=None):
                return impl2(x, y)

        else:

            @deco
            def bystander(x, y=None):  # type: ignore[misc]
                return impl2(x, y)

    hist: list = []  # (key, box_serial|None, box_time|None)
    flags = {"hit": False, "evict": False, "expiry": False, "keys": set()}

    async def main(loop):
        state["now"] = loop.time
        for op in ops:
            if op["o"] == "adv":
                await asyncio.sleep(op["dt"])
                continue
            if op["o"] == "drop":
                if is_method:
                    r = op["r"] % 3
                    # free the old receiver FIRST, then allocate: CPython then tends to reuse the freed address, so a
                    # key built from id(receiver) (instead of the receiver itself) would serve the dead one's entry
                    receivers[r] = None
                    receivers[r] = Holder(next(recv_counter))
                continue
            args, kwargs, bound = _call_args(op["form"])
            if bystander is not None:
                # for method variants alternate between the plain second function and the second METHOD of the receiver
                second = getattr(receivers[op["r"] % 3], "g") if (is_method and len(hist) % 2 == 0) else bystander
                other = (await second(*args, **kwargs)) if is_async else second(*args, **kwargs)
                if not isinstance(other, Box) or other.tag[0] != -1 or not (_same(other.tag[1], bound[0]) and _same(other.tag[2], bound[1])):
                    out.violate("safety", f"C12.safety/{sig}/entry-of-another-cached-function", f"the second function called with {bound!r} returned {getattr(other, 'tag', other)!r}")
                del other
            if is_method:
                recv = receivers[op["r"] % 3]
                serial = recv.serial
                fn = recv.f
            else:
                serial = 0
                fn = f
            key = _key(serial, args, kwargs)
            flags["keys"].add(key[1:] if False else (key[1], key[2]))
            now = loop.time()
            inv_before = state["inv"]
            state["raise_next"] = bool(op.get("raise"))
            ret = None
            err = None
            try:
                if is_async and case.get("in_scope"):
                    # the call is made from inside a scope (one scope per request)
                    from haiway import ctx

                    async with ctx.scope("c12"):
                        ret = await fn(*args, **kwargs)
                else:
                    ret = (await fn(*args, **kwargs)) if is_async else fn(*args, **kwargs)
            except CacheErr as exc:
                err = (type(exc).__name__, exc.args)
            finally:
                state["raise_next"] = False
            invoked = state["inv"] - inv_before
            if invoked > 1:
                out.violate("hit", f"C12.hit/{sig}/function-invoked-more-than-once", f"{invoked} invocations for one call")
            # latest earlier call with the same key that returned a Box
            j = None
            for idx in range(len(hist) - 1, -1, -1):
                if hist[idx][0] == key and hist[idx][1] is not None:
                    j = idx
                    break
            box_serial = box_time = None
            if ret is not None:
                if not isinstance(ret, Box):
                    out.violate("safety", f"C12.safety/{sig}/foreign-value", repr(ret))
                else:
                    rs, x, y, inv_no, t = ret.tag
                    box_serial, box_time = ret.serial, t
                    if rs != serial:
                        out.violate("safety", f"C12.safety/{sig}/wrong-receiver", f"call on receiver {serial} got result of {rs}")
                    if not (_same(x, bound[0]) and _same(y, bound[1])):
                        out.violate(
                            "safety",
                            f"C12.safety/{sig}/wrong-key",
                            f"call with x={bound[0]!r} y={bound[1]!r} got result produced for x={x!r} y={y!r}",
                        )
                    if exp is not None and now - t > exp:
                        out.violate("safety", f"C12.safety/{sig}/expired-entry-served", f"age {now - t} > expiration {exp}")
                    if invoked == 0:
                        flags["hit"] = True
                    elif inv_no != state["inv"]:
                        out.violate("safety", f"C12.safety/{sig}/stale-despite-invocation", f"{ret.tag}")
            elif err is None and case.get("none_results") and type(bound[0]) is int:
                # the function's own result for this key is None: which invocation produced a cached None cannot be told
                # from the object, so it is tracked through the history (time of the invocation that produced it)
                box_serial = "none"
                if invoked:
                    box_time = now
                else:
                    flags["hit"] = True
                    if j is None or hist[j][1] != "none":
                        out.violate("safety", f"C12.safety/{sig}/foreign-value", "None although the function was never invoked for this key")
                    else:
                        box_time = hist[j][2]
                        if exp is not None and now - box_time > exp:
                            out.violate("safety", f"C12.safety/{sig}/expired-entry-served", f"age {now - box_time} > expiration {exp} (None result)")
            else:
                if err is None:
                    out.violate("safety", f"C12.safety/{sig}/returned-None", "no value and no error")
            # hit obligation
            if j is not None:
                # "other keys since": calls that stored something. A call of a SYNC function that raised stored nothing (the
                # exception propagates before anything is kept), so it does not push anybody towards the LRU end; an async
                # call that failed did store its task
                # ... and it leaves that key without an entry (it was a miss, or an expired entry that the lookup dropped):
                # earlier accesses of that key do not count any more
                others = set()
                for h in hist[j + 1 :]:
                    if h[0] == key:
                        continue
                    if is_async or h[1] is not None:
                        others.add(h[0])
                    else:
                        others.discard(h[0])
                age = now - hist[j][2]
                fresh = exp is None or age < exp
                if exp is not None and age == exp:
                    out.unspecified.append("age==expiration")
                if exp is not None and age > exp:
                    flags["expiry"] = True
                if len(others) >= limit:
                    flags["evict"] = True
                if len(others) < limit and fresh:
                    if box_serial != hist[j][1] or invoked != 0:
                        why = "recomputed" if invoked else "different-object"
                        out.violate(
                            "hit",
                            f"C12.hit/{sig}/{why}-although-among-limit-most-recent-and-unexpired",
                            f"key {key} last returned box {hist[j][1]} at step {j}, {len(others)} other keys since (limit {limit}), "
                            f"age {age} (exp {exp}); now got box {box_serial} with {invoked} invocation(s)",
                        )
            hist.append((key, box_serial, box_time))
            del ret
            # capacity: live result objects not referenced by the harness
            if len(live) > limit:
                gc.collect()
                if len(live) > limit:
                    out.violate("capacity", f"C12.capacity/{sig}/more-than-limit-entries-alive", f"{len(live)} live results, limit {limit}")
        return None

    res = vloop.run(main)
    if res.outcome == "raise":
        raise res.value
    if res.outcome == "hang":
        out.violate("hit", f"C12.term/{sig}/hang", "history never finished")
    twins = {(k[0][0][1] if k[0] else None) for k in flags["keys"]}
    classes = []
    if flags["hit"]:
        classes.append("hit")
    if flags["evict"]:
        classes.append("eviction")
    if flags["expiry"]:
        classes.append("expiry")
    names = {k[0][0][0] for k in flags["keys"] if k[0]} | {k[1][0][1] for k in flags["keys"] if k[1]}
    if len(names & {"int", "float", "bool"}) >= 2:
        classes.append("typed-twins-in-play")
    if is_method:
        classes.append("method-variant")
    if is_async:
        classes.append("async-variant")
    if bystander is not None:
        classes.append("second-cached-function")
    del twins
    out.classes = classes
    out.nontrivial = flags["hit"] and (flags["evict"] or flags["expiry"])
    return out


# ------------------------------------------------------------------------------------------ generation
def _form_strategy():
    idx = st.integers(0, len(ALPHA) - 1)
    small = st.sampled_from([0, 1, 2, 0, 1, 4])  # the ==-equal triple 1 / 1.0 / True is favoured
    return st.one_of(
        st.tuples(st.sampled_from(["pos", "pos", "kw"]), small, st.just(0)),
        st.tuples(st.sampled_from(["pos", "kw"]), idx, st.just(0)),
        st.tuples(st.sampled_from(["pos2", "poskw", "kw2", "kw2r"]), small, small),
    ).map(list)


def strategy(tier):
    max_len = 40 if tier == "quick" else 60

    @st.composite
    def cases(draw):
        variant = draw(st.sampled_from(VARIANTS))
        limit = draw(st.integers(1, 4))
        exp = draw(st.sampled_from(EXPS))
        # a small pool of call templates per case, so that keys repeat (hits, evictions, expiry all need repeats)
        nrecv = 3 if variant.endswith("method") else 1
        pool = draw(
            st.lists(
                st.tuples(st.integers(0, nrecv - 1), _form_strategy()),
                min_size=2,
                max_size=limit + 3,
            )
        )
        call = st.builds(
            lambda t, rz: {"o": "call", "r": t[0], "form": t[1], "raise": rz},
            st.sampled_from(pool),
            st.sampled_from([False] * 9 + [True]),
        )
        ops = [call, call, call, call, st.builds(lambda dt: {"o": "adv", "dt": dt}, st.sampled_from([0.125, 0.5, 1, 1.5, 2.5, 5]))]
        if nrecv > 1:
            ops.append(st.builds(lambda r: {"o": "drop", "r": r}, st.integers(0, 2)))
        return {
            "variant": variant,
            "limit": limit,
            "exp": exp,
            "bare": draw(st.integers(0, 9)) == 0,
            "bystander": draw(st.integers(0, 3)) == 0,
            "in_scope": draw(st.integers(0, 3)) == 0,
            "none_results": draw(st.integers(0, 3)) == 0,
            "ops": draw(st.lists(st.one_of(*ops), min_size=4, max_size=max_len)),
        }

    @st.composite
    def expiry_lru(draw):
        """staggered insertion, then the oldest key expires alone and is recomputed, then a new key forces an eviction:
        the recomputed key is the most recently used one and must survive"""
        variant = draw(st.sampled_from(VARIANTS))
        limit = draw(st.integers(2, 4))
        exp = draw(st.sampled_from([1, 2.5, 4]))
        keys = [["pos", i, 0] for i in draw(st.permutations([0, 1, 2, 3, 4, 5, 6]))[: limit + 1]]
        call = lambda k: {"o": "call", "r": 0, "form": k, "raise": False}  # noqa: E731
        gap = draw(st.sampled_from([0.125, 0.5]))
        ops = []
        for k in keys[:limit]:
            ops += [call(k), {"o": "adv", "dt": gap}]
        # now: first key's age = limit*gap; advance so that only the first one (or the first few) is expired
        ops.append({"o": "adv", "dt": draw(st.sampled_from([exp - (limit - 1) * gap, exp - limit * gap + 0.125, 0.125, exp]))})
        # the expired oldest key is recomputed while the cache is full, then either a NEW key forces an eviction (the
        # recomputed key is now the most recent and must survive) or the other LIVE keys are called again (refreshing
        # an expired key must not have cost a live one its place)
        if draw(st.booleans()):
            ops += [call(keys[0]), call(keys[limit]), call(keys[0])]
        else:
            ops += [call(keys[0])] + [call(k) for k in keys[1:limit]] + [call(keys[0])]
        if draw(st.booleans()):
            ops.insert(draw(st.integers(0, len(ops))), {"o": "drop", "r": 0})
        ops += draw(st.lists(st.sampled_from([call(k) for k in keys] + [{"o": "adv", "dt": 0.5}]), max_size=6))
        return {"variant": variant, "limit": limit, "exp": exp, "ops": [o for o in ops if o.get("dt", 1) > 0]}

    return st.one_of(cases(), cases(), expiry_lru())


def enumerate_cases(tier):
    keys = [["pos", 0, 0], ["pos", 1, 0], ["pos", 4, 0]]  # 1, 1.0, 2
    alphabet = [{"o": "call", "r": 0, "form": k, "raise": False} for k in keys] + [{"o": "adv", "dt": 0.5}, {"o": "adv", "dt": 2.5}]
    if tier == "quick":
        # LRU order only matters from limit 2 and needs 5 steps (A B A C A): one step deeper there
        configs = [(v, l, e, 5 if (l == 2 and e is None) else 4) for v in VARIANTS for l in (1, 2) for e in (None, 1)]
    else:
        configs = [(v, l, e, 6) for v in VARIANTS for l in (1, 2, 3, 4) for e in EXPS]
    for v, l, e, maxlen in configs:
        for n in range(2, maxlen + 1):
            for ops in itertools.product(alphabet, repeat=n):
                yield {"variant": v, "limit": l, "exp": e, "ops": list(ops)}
    # a call for a NEW key that raises while the cache is full (at every position of a short history): a failed call of a
    # sync function stores nothing, so nobody is pushed out for it; the earlier keys are still answered from the cache
    distinct5 = [["pos", 0, 0], ["pos", 4, 0], ["pos", 5, 0], ["pos", 6, 0], ["pos", 7, 0]]
    for v in VARIANTS:
        for l in (1, 2, 3):
            fill = [{"o": "call", "r": 0, "form": distinct5[k], "raise": False} for k in range(l)]
            boom = {"o": "call", "r": 0, "form": distinct5[l], "raise": True}
            for e in (None, 5):
                yield {"variant": v, "limit": l, "exp": e, "ops": [*fill, boom, *fill]}
                yield {"variant": v, "limit": l, "exp": e, "ops": [*fill, boom, boom, *reversed(fill), dict(boom, **{"raise": False}), fill[-1]]}
    # two keyword arguments whose ==-equal, differently typed values (1 / 1.0 / True) are SWAPPED between the names, written in
    # the other order: another call, whatever the order the keywords are written in
    for v in VARIANTS:
        for i, j in itertools.permutations((0, 1, 2), 2):
            first = {"o": "call", "r": 0, "form": ["kw2", i, j], "raise": False}
            swapped = {"o": "call", "r": 0, "form": ["kw2r", j, i], "raise": False}
            yield {"variant": v, "limit": 3, "exp": None, "ops": [first, swapped, first, swapped]}
            yield {"variant": v, "limit": 3, "exp": None, "ops": [swapped, {"o": "call", "r": 0, "form": ["kw2", j, i], "raise": False}, first]}
    # the refresh of an EXPIRED key fails while the cache is full (after the expired key was hit / was not hit in between):
    # the dead entry is gone, so a new key takes ITS place and the live keys are still answered from the cache
    for v in VARIANTS:
        for l in (2, 3):
            live = [{"o": "call", "r": 0, "form": distinct5[k + 1], "raise": False} for k in range(l - 1)]
            old_ = {"o": "call", "r": 0, "form": distinct5[0], "raise": False}
            fresh = {"o": "call", "r": 0, "form": distinct5[4], "raise": False}
            for rehit in (True, False):
                for tail in ([fresh, *live], [fresh, *reversed(live)], [*live, fresh, *live]):
                    yield {"variant": v, "limit": l, "exp": 2.5, "ops": [old_, {"o": "adv", "dt": 1.5}, *live, *([old_] if rehit else []), {"o": "adv", "dt": 1.5},
                                                                       dict(old_, **{"raise": True}), *tail]}  # fmt: skip
    # a second cached function / second cached method (same decorator object, same arguments) called in between
    for v in VARIANTS:
        for l in (1, 2):
            for ops in itertools.product(alphabet[:2], repeat=3):
                yield {"variant": v, "limit": l, "exp": None, "ops": list(ops), "bystander": True}
    # limits 3 and 4 need limit+1 distinct keys before anything is evicted: every call history over limit+1 keys up to
    # renaming of the keys (restricted growth strings), no clock advance
    distinct = [["pos", i, 0] for i in (0, 3, 4, 6, 7)]  # 1, "1", 2, (1,), None: pairwise unequal
    for l, maxlen in ((3, 7), (4, 7)) if tier == "quick" else ((3, 8), (4, 9)):
        for n in range(l + 1, maxlen + 1):
            for word in _rgs(n, l + 1):
                if max(word) < l:
                    continue  # fewer than limit+1 keys: nothing can be evicted
                for v in VARIANTS:
                    yield {"variant": v, "limit": l, "exp": None, "ops": [{"o": "call", "r": 0, "form": distinct[k], "raise": False} for k in word]}
    if tier != "quick":
        # limit 3 with an expiration and two clock advances at every pair of positions (expired entries leave gaps,
        # hits reorder entries of different age)
        for word in _rgs(6, 4):
            for i in range(1, 6):
                for j in range(i, 6):
                    for d1, d2 in ((1.5, 1.5), (1.5, 0.5), (0.5, 1.5), (1.25, 1.0)):
                        calls = [{"o": "call", "r": 0, "form": distinct[k], "raise": False} for k in word]
                        ops = calls[:i] + [{"o": "adv", "dt": d1}] + calls[i:j] + [{"o": "adv", "dt": d2}] + calls[j:]
                        yield {"variant": "sync" if (i + j) % 2 else "async", "limit": 3, "exp": 2.5, "ops": ops}


def _rgs(n, kmax):
    """restricted growth strings of length n over at most kmax symbols: call histories up to renaming of keys"""

    def rec(seq, m):
        if len(seq) == n:
            yield tuple(seq)
            return
        for sym in range(min(m + 1, kmax)):
            yield from rec([*seq, sym], max(m, sym + 1))

    return rec([], 0)


def budget(tier):
    return {"examples": 800, "shards": 1} if tier == "quick" else {"examples": 3000, "shards": 16}
