"""C17 - AsyncQueue delivers every element exactly once, in order, then the finish reason.

Case: {"ops": [op, ...]} over
  enq1 | enq3 | enq<N> | finish | finish_err | cancel_q | recv | recvrun | cancel_recv | run | tick
interpreted by a driver coroutine on the virtual loop. Single consumer: `recv` is skipped while a
previous receive task is still outstanding (the class documents one consumer)."""

from __future__ import annotations

import asyncio
import itertools

from hypothesis import strategies as st

from hv import vloop
from hv.core import Outcome

PID = "C17"
LEVEL = "exploration"
TECHNIQUE = "model-based operation-sequence generation (exhaustive for short histories) against a FIFO reference"
RULE = (
    "cases are operation sequences over {enq1, enq3, finish, finish_err, cancel_q, recv, cancel_recv, run}; "
    "quick enumerates every sequence of length<=5 and draws random ones up to length 40 (with bulk enqueues, completed "
    "receives and single loop turns as extra operations), thorough enumerates length<=7; size-directed histories cover "
    "backlogs of 1..40 elements and the k-th consecutive buffered delivery (k<=32) cancelled half-way; a case is non-trivial when an enqueue happens while a receive is pending, a pending receive is "
    "cancelled, or the queue is finished while a receive is pending; distinct = distinct op sequence"
)
RULE += '; __anext__ is called when the receive is issued (first step later); elements may be exception instances'
RULE += '; consuming tasks that absorbed a cancellation earlier (sticky cancelling())'
LEVEL_TEXT = (
    "Every operation sequence up to length 5 (quick) / 7 (thorough) is executed against the real AsyncQueue on a "
    "deterministic loop and compared with a FIFO reference; longer histories (<=40) are sampled. Exhaustive within "
    "the bound, sampled beyond it; no claim past length 40."
)
LEVEL_NOTE = (
    "Trusted: the virtual-time loop preserves asyncio's FIFO callback order; one consumer at a time; the reference "
    "(list of enqueued integers + first finish reason)."
)
ASSUMPTIONS = [
    "single consumer: a new receive is only started when no receive task is outstanding",
    "virtual loop runs ready callbacks FIFO like asyncio's default loop",
]
EXHAUSTIVE_MEANS = "all operation sequences over the 8 basic operations up to the stated length (quick: 5, thorough: 7); plus size-directed histories: backlogs of 1..40 elements, the k-th consecutive buffered delivery (k<=32) cancelled at its start"
OPS = ["enq1", "enq3", "finish", "finish_err", "cancel_q", "recv", "cancel_recv", "run"]
REQUIRED_CLASSES = ["enqueue-while-receive-pending", "cancelled-pending-receive", "finish-while-receive-pending"]


class QErr(Exception):
    pass


class FalsyErr(Exception):
    """an exception instance that is falsy (e.g. an error collection with __len__ == 0): still the given reason"""

    def __bool__(self):
        return False


# the first few elements are falsy / None (legal elements); all are pairwise distinct under ==
# ... and a few are exception INSTANCES (a queue of results-or-errors): elements like any other, never raised
_SPECIAL = [None, QErr("an element"), 0, asyncio.CancelledError("an element"), "", StopAsyncIteration("an element"), (), FalsyErr("an element")]


def _element(i):
    return _SPECIAL[i] if i < len(_SPECIAL) else i


def budget(tier):
    return {"examples": 1500, "shards": 1} if tier == "quick" else {"examples": 20000, "shards": 16}


def strategy(tier):
    # weights: receives and runs more frequent so that hand-off situations are common; bulk enqueues and completed
    # receives make long backlogs and long runs of deliveries reachable within 40 operations
    op = st.sampled_from(OPS + ["recv", "run", "enq1", "cancel_recv", "recvrun", "recvrun", "enq12", "tick", "tick"])
    return st.builds(lambda ops, second, sticky: {"ops": ops, "second_loop": second, "sticky": sticky}, st.lists(op, min_size=6, max_size=40), st.sampled_from([False, False, False, True]),
                     st.sampled_from([False, False, True]))  # fmt: skip


def enumerate_cases(tier):
    n = 5 if tier == "quick" else 7
    for length in range(0, n + 1):
        for ops in itertools.product(OPS, repeat=length):
            yield {"ops": list(ops)}
    # every history of length <= 4 again with consuming tasks that absorbed a cancellation request before they receive
    for length in range(0, 5):
        for ops in itertools.product(OPS, repeat=length):
            yield {"ops": list(ops), "sticky": True}
    # every history of length <= 4 again under the second event loop of the process
    for length in range(0, 5):
        for ops in itertools.product(OPS, repeat=length):
            yield {"ops": list(ops), "second_loop": True}
    # size-directed histories (within 40 operations / 40 elements): a backlog of every size, delivered completely; the
    # k-th consecutive delivery from the buffer cancelled right after it was started; a waiting consumer handed the first
    # of N elements and cancelled before it wakes
    for size in range(1, 41):
        yield {"ops": [f"enq{size}"]}
        yield {"ops": ["recv", "run", f"enq{size}", "cancel_recv", "run"]}
        yield {"ops": [f"enq{size}", "recv", "cancel_recv", "run", "finish"]}
    for k in range(0, 33):
        yield {"ops": [f"enq{k + 4}"] + ["recvrun"] * k + ["recv", "cancel_recv", "run", "recvrun", "recvrun"]}
        yield {"ops": ["enq1"] * (k + 2) + ["recvrun"] * k + ["recv", "run", "cancel_recv", "recvrun"]}
        for ticks in (1, 2):
            yield {"ops": [f"enq{k + 4}"] + ["recvrun"] * k + ["recv"] + ["tick"] * ticks + ["cancel_recv", "run", "recvrun", "recvrun"]}


def _result(task):
    # a task cancelled before its first step never runs its coroutine
    if task.cancelled():
        return ("exc", asyncio.CancelledError())
    return task.result()


def run_case(case) -> Outcome:
    from haiway.utils.queue import AsyncQueue

    ops = case["ops"]
    out = Outcome()
    log: dict = {"classes": set()}

    async def main():
        q = AsyncQueue()
        enqueued: list[int] = []
        received: list[int] = []
        counter = itertools.count()
        finished = False
        reason = None  # ("stop",) | ("err", obj) | ("cancel",)
        pending = None  # outstanding receive task
        pending_cancel_requested = False

        def receive():
            # q.__anext__() is CALLED now (as `ensure_future(q.__anext__())` / `anext(q)` does), the returned awaitable takes
            # its first step only when the loop runs the task: operations in between must not be missed by the receive
            try:
                aw = q.__anext__()
            except BaseException as exc:  # noqa: BLE001
                aw = exc

            async def run():
                if isinstance(aw, BaseException):
                    return ("exc", aw)
                if case.get("sticky"):
                    # the consuming task absorbed a cancellation request earlier (Task.cancelling() stays > 0 for good): not a
                    # pending cancellation - receives work as ever
                    asyncio.current_task().cancel()
                    try:
                        await asyncio.sleep(0)
                    except asyncio.CancelledError:
                        pass
                try:
                    return ("val", await aw)
                except BaseException as exc:  # noqa: BLE001 - observation, classified below
                    return ("exc", exc)

            return run()

        def reason_matches(exc) -> bool:
            if reason is None:
                return False
            if reason[0] == "stop":
                return isinstance(exc, StopAsyncIteration)
            if reason[0] == "err":
                return exc is reason[1]
            return isinstance(exc, asyncio.CancelledError)

        def collect():
            nonlocal pending, pending_cancel_requested
            if pending is not None and pending.done():
                kind, val = _result(pending)
                if kind == "val":
                    received.append(val)
                else:
                    if pending_cancel_requested and isinstance(val, asyncio.CancelledError):
                        pass  # our own cancellation of the pending receive
                    elif not finished:
                        out.violate("2", "C17.2/receive-raised-before-finish", repr(val))
                    elif not reason_matches(val):
                        out.violate("2", "C17.2/wrong-finish-reason", f"{val!r} expected {reason!r}")
                    elif len(received) != len(enqueued):
                        out.violate(
                            "2",
                            "C17.2/finish-reason-before-buffered-elements",
                            f"received={received} enqueued={enqueued}",
                        )
                pending = None
                pending_cancel_requested = False

        for op in ops:
            collect()
            if op.startswith("enq"):
                vals = [_element(next(counter)) for _ in range(int(op[3:]))]
                if pending is not None and not pending.done():
                    log["classes"].add("enqueue-while-receive-pending")
                try:
                    q.enqueue(*vals)
                    if finished:
                        out.violate("3", "C17.3/enqueue-after-finish-accepted", vals)
                    enqueued.extend(vals)
                except RuntimeError:
                    if not finished:
                        out.violate("3", "C17.3/enqueue-rejected-before-finish", vals)
            elif op in ("finish", "finish_err", "cancel_q"):
                if pending is not None and not pending.done():
                    log["classes"].add("finish-while-receive-pending")
                if op == "finish":
                    q.finish()
                    new = ("stop",)
                elif op == "finish_err":
                    n = next(counter)
                    e = FalsyErr(n) if n % 2 else QErr(n)
                    q.finish(e)
                    new = ("err", e)
                else:
                    q.cancel()
                    new = ("cancel",)
                if not finished:
                    finished, reason = True, new
            elif op in ("recv", "recvrun"):
                if pending is None:
                    pending = asyncio.get_running_loop().create_task(receive())
                if op == "recvrun":  # a receive that is given the time to complete (long runs of deliveries)
                    await vloop.settle()
                    collect()
            elif op == "cancel_recv":
                if pending is not None and not pending.done():
                    log["classes"].add("cancelled-pending-receive")
                    pending.cancel()
                    pending_cancel_requested = True
            elif op == "run":
                await vloop.settle()
            elif op == "tick":
                await asyncio.sleep(0)  # exactly one turn of the loop (a receive may be caught half-way)
            if q.is_finished != finished:
                out.violate("4", "C17.4/is_finished-mismatch", f"{q.is_finished} vs model {finished}")

        # epilogue: let everything land, finish, drain with fresh receives
        await vloop.settle()
        collect()
        if pending is not None:
            # still waiting: nothing buffered may remain and the queue is not finished
            if finished:
                out.violate("2", "C17.2/receive-hangs-after-finish", f"received={received}")
            elif len(received) != len(enqueued):
                out.violate("1", "C17.1/receive-waits-while-elements-undelivered", f"{received} vs {enqueued}")
        if not finished:
            q.finish()
            finished, reason = True, ("stop",)
            await vloop.settle()
            collect()
        if pending is not None:
            out.violate("2", "C17.2/receive-hangs-after-finish", f"received={received}")
            pending.cancel()
            await vloop.settle()
            pending = None
        for _ in range(len(enqueued) + 3):
            t = asyncio.get_running_loop().create_task(receive())
            await vloop.settle()
            if not t.done():
                out.violate("2", "C17.2/receive-hangs-after-finish", f"received={received}")
                t.cancel()
                await vloop.settle()
                break
            kind, val = _result(t)
            if kind == "val":
                received.append(val)
                continue
            if not reason_matches(val):
                out.violate("2", "C17.2/wrong-finish-reason", f"{val!r} expected {reason!r}")
            break
        else:
            out.violate("1", "C17.1/more-elements-than-enqueued", f"{received} vs {enqueued}")
        # after the reason, every further receive ends with the reason again
        t = asyncio.get_running_loop().create_task(receive())
        await vloop.settle()
        if not t.done():
            out.violate("2", "C17.2/receive-hangs-after-finish", "second receive after reason")
            t.cancel()
            await vloop.settle()
        else:
            kind, val = _result(t)
            if kind != "exc" or not reason_matches(val):
                out.violate("2", "C17.2/reason-not-sticky", f"{kind} {val!r} expected {reason!r}")
        if received != enqueued:
            lost = [x for x in enqueued if x not in received]
            dup = sorted({x for x in received if received.count(x) > 1}, key=repr)
            if lost:
                sig = "C17.1/element-lost"
            elif dup:
                sig = "C17.1/element-duplicated"
            elif sorted(received, key=repr) == sorted(enqueued, key=repr):
                sig = "C17.1/elements-reordered"
            else:
                sig = "C17.1/element-invented"
            out.violate("1", sig, f"enqueued={enqueued} received={received}")
        try:
            q.enqueue("after-finish")
            out.violate("3", "C17.3/enqueue-after-finish-accepted", "epilogue")
        except RuntimeError:
            pass

    if case.get("second_loop"):
        # the history runs under the SECOND event loop of the process: an earlier loop (closed by now) served another queue
        async def primer():
            q0 = AsyncQueue()
            t = asyncio.get_running_loop().create_task(q0.__anext__())
            await vloop.settle()
            q0.enqueue(0)
            await vloop.settle()
            q0.finish()
            return t.result()

        vloop.run(lambda loop: primer())
        log["classes"].add("second-event-loop")
    res = vloop.run(lambda loop: main())
    if res.outcome == "hang":
        out.violate("2", "C17.2/driver-hang", "loop quiescent while driver unfinished")
    elif res.outcome == "raise":
        raise res.value
    out.classes = sorted(log["classes"])
    out.nontrivial = bool(log["classes"])
    return out
