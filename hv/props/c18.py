"""C18 - asynchronous, wrap_async, traced are transparent and carry the caller context.

Case: {"dec": decorator kind, "form": "function"|"method"|"unbound", "sig": {...}, "call": {"args": [...], "kwargs": {...}},
       "outcome": {"kind": "return"|"raise", "v": value spec}, "nest": [[SV...], ...], "executor": "default"|"explicit"}
Runs on a REAL event loop (asyncio.Runner) because `asynchronous` uses executor threads; nothing asserted depends on
thread scheduling, and the only wall-clock element is a 2 s cap that only a violation can hit."""

from __future__ import annotations

import asyncio
import copy
import logging
import threading
import threading as _threading
import concurrent.futures as _cf
from concurrent.futures import BrokenExecutor as _BrokenExecutor
from concurrent.futures import Executor as _Executor
from concurrent.futures import Future as _CFuture
from concurrent.futures import ThreadPoolExecutor

from hypothesis import strategies as st

from haiway import MISSING, asynchronous, cache, ctx, retry, throttle, timeout, traced, wrap_async
from haiway.helpers.tracing import ArgumentsTrace, ResultTrace
from hv import progs as P
from hv.core import Outcome

P.scope_log_shapes()  # learned once, before any case runs

PID = "C18"
LEVEL = "exploration"
TECHNIQUE = "generated call signatures (exec-ed source) x arguments x outcomes x decorators x scope nestings; differential against the undecorated function; thread / context / trace observations"
RULE = (
    "cases are (decorator in {asynchronous bare / called / with executor, wrap_async of sync and async functions, traced "
    "sync and async, cache, retry, throttle, timeout}, plain function / bound method / unbound method access, generated "
    "signature with positional, defaulted, keyword-only, *args and **kwargs parameters, matching call arguments, outcome "
    "= return of a generated value or raise of a generated exception, parameters optionally named like a wrapper's own "
    "(instance, cls, args, key, loop, ...), method receivers plain / a copy.copy of an instance already used / an instance "
    "of a subclass whose override delegates through super(), call made from 0-3 nested scopes supplying family "
    "state, default or explicit executor); non-trivial = a call with keyword arguments or defaults made from inside >=1 "
    "scope, or a method call; distinct = distinct case"
)
RULE += "; the explicit executor may be a concurrent.futures.Executor of the caller's own (thread per call)"
RULE += "; built-in exception classes as the function's outcome; the call may be handed to create_task / ctx.spawn instead of being awaited in place"
RULE += '; exception instances as arguments and results; concurrent.futures exception classes raised by the function'
RULE += '; an earlier call from the same place that changed a context variable; falsy raised exceptions'
RULE += '; a bound asynchronous method handed to another helper (enumerated); arguments whose repr raises during the call'
RULE += '; helpers over C-implemented callables; decorated methods of equal / unhashable receivers (both enumerated)'
RULE += '; traced sync functions called from plain synchronous code; exceptions carrying a cause / context through every helper (enumerated)'
LEVEL_TEXT = (
    "Differential: what the undecorated function receives, returns or raises is compared with the decorated call "
    "(identity for exceptions); inside the function the thread identity, a loop heartbeat and the caller's context "
    "fingerprint are observed; the caller's fingerprint must be unchanged afterwards; traced must record arguments and "
    "outcome in a scope named after the function; all seven decorators must keep __name__, __doc__, __wrapped__."
)
LEVEL_NOTE = (
    "Trusted: real asyncio loop + ThreadPoolExecutor(2) per case, shut down at the end of the case; the executor's "
    "interleavings are not owned but nothing asserted depends on them; a blocked loop is detected through a 2 s cap "
    "(violation direction only)."
)
ASSUMPTIONS = [
    "entering ctx.scope inside an executor thread is not generated (needs an event loop there)",
    "traced under python -O is the identity and is not explored",
    "throttle/timeout are documented as function-only: generated as plain functions",
]
REQUIRED_CLASSES = ["method", "keyword-arguments", "inside-scope", "raises", "asynchronous", "traced", "receiver-copy", "receiver-super", "wrapper-like-parameter-names", "one-shot-iterator-argument"]

DECS = [
    "asynchronous_bare", "asynchronous_call", "asynchronous_executor", "wrap_async_sync", "wrap_async_async",
    "traced_sync", "traced_async", "cache", "retry", "throttle", "timeout",
]  # fmt: skip
ASYNC_ORIGINAL = {"wrap_async_async", "traced_async", "cache", "retry", "throttle", "timeout"}
class _ThreadPerCall(_Executor):
    """minimal concurrent.futures.Executor that is not a ThreadPoolExecutor: every submitted call gets its own thread"""

    def __init__(self):
        self._threads: list = []

    def submit(self, fn, /, *args, **kwargs):
        fut: _CFuture = _CFuture()

        def work():
            if not fut.set_running_or_notify_cancel():
                return
            try:
                fut.set_result(fn(*args, **kwargs))
            except BaseException as exc:  # noqa: BLE001 - handed to the future like every executor does
                fut.set_exception(exc)

        th = _threading.Thread(target=work, daemon=True)
        self._threads.append(th)
        th.start()
        return fut

    def shutdown(self, wait=True, *, cancel_futures=False):
        if wait:
            for th in self._threads:
                th.join(5)


THREADED = {"asynchronous_bare", "asynchronous_call", "asynchronous_executor"}


# exception classes the helpers' own plumbing meets as well (executors, loops, futures, timeouts): raised by the FUNCTION they
# are its outcome like any other
_BUILTIN_RAISED = {
    "RuntimeError": RuntimeError,
    "NotImplementedError": NotImplementedError,
    "TimeoutError": TimeoutError,
    "LookupError": LookupError,
    "AssertionError": AssertionError,
    "OSError": OSError,
    "InvalidStateError": asyncio.InvalidStateError,
    "BrokenExecutor": _BrokenExecutor,
    # exactly the classes asyncio re-creates when it copies an executor future's exception
    "concurrent.futures.CancelledError": _cf.CancelledError,
    "concurrent.futures.InvalidStateError": _cf.InvalidStateError,
}


_REPR_ARMED = [False]


class _BadRepr:
    def __repr__(self):
        if _REPR_ARMED[0]:
            raise RuntimeError("repr() refused")
        return "<BadRepr>"

    def __eq__(self, other):
        return type(other) is _BadRepr

    def __hash__(self):
        return 11


class FnErr(Exception):
    pass


class FnBase(BaseException):
    pass


class FnFalsyErr(Exception):
    """an exception whose instances are falsy (an empty error collection, a zero status): raised like any other"""

    def __len__(self):
        return 0


SENT = P.sentinels()
_MARK: "contextvars.ContextVar" = __import__("contextvars").ContextVar("hv_c18_mark")
_SENT_LABEL = {id(v): ("sentinel", k) for k, v in SENT.items()}


def fingerprint(labels):
    fp = {}
    for n, T in P.FAMILY.items():
        try:
            v = ctx.state(T, default=SENT[n])
            fp[n] = labels.get(id(v)) or _SENT_LABEL.get(id(v)) or ("unknown", repr(v))
        except Exception as exc:  # noqa: BLE001
            fp[n] = type(exc).__name__
    return fp


_ITER_ITEMS: dict = {}
_ITER_KEEP: list = []


def make_value(spec):
    k = spec["k"]
    if k == "int":
        return spec["x"]
    if k == "str":
        return spec["x"]
    if k == "none":
        return None
    if k == "list":
        return [make_value(x) for x in spec["items"]]
    if k == "dict":
        return {f"k{i}": make_value(x) for i, x in enumerate(spec["items"])}
    if k == "state":
        return P.A(v=spec["x"])
    if k == "obj":
        return object()
    if k == "badrepr":
        # an argument whose repr() refuses to work while the call is being made (a closed handle, a half-initialised object):
        # the decorators pass arguments on, they have no business formatting them
        return _BadRepr()
    if k == "excinst":
        # an exception INSTANCE as a plain value (a result-or-error record, an argument to report): returned / passed on,
        # never raised by a wrapper
        return {"ValueError": ValueError, "TimeoutError": TimeoutError, "CancelledError": asyncio.CancelledError, "FnErr": FnErr}[spec["x"]]("a value, not raised")
    if k == "iter":
        # a one-shot iterator / generator as ARGUMENT: the function itself must be the one that consumes it
        it = iter(list(spec["items"])) if spec.get("how") == "iter" else (x for x in list(spec["items"]))
        _ITER_ITEMS[id(it)] = list(spec["items"])
        _ITER_KEEP.append(it)
        del _ITER_KEEP[:-64]
        return it
    if k == "future":
        # a legitimate RESULT that happens to be awaitable: must be returned as it is, never awaited by a wrapper
        import concurrent.futures

        f = concurrent.futures.Future()
        f.set_result(42)
        return _AwaitableResult(f)
    raise ValueError(k)


class _AwaitableResult:
    def __init__(self, inner):
        self.inner = inner

    def __await__(self):
        raise AssertionError("the result object was awaited by a wrapper")
        yield  # pragma: no cover


# parameter / keyword names a wrapper might use itself (its own parameters, closure helpers, classmethod receivers):
# the user's function is free to use them too
NAME_POOL = [
    "instance", "cls", "function", "func", "fn", "args", "kwargs", "kwds", "key", "loop", "executor", "label", "typed",
    "context", "result", "value", "exception", "state", "metric", "default", "owner", "task", "future", "limit", "period",
    "timeout", "delay", "catching", "expiration", "name", "target", "wrapped", "other", "this",
]  # fmt: skip


def _nm(sig, name):
    """the rendered name of a parameter / extra keyword (identity unless the case renames it)"""
    return (sig.get("names") or {}).get(name, name)


def render_sig(sig, method):
    parts = ["self"] if method else []
    for i in range(sig["pos"]):
        name = _nm(sig, f"p{i}")
        if i >= sig["pos"] - sig["defaults"]:
            parts.append(f"{name}={i * 10}")
        else:
            parts.append(name)
    if sig["varargs"]:
        parts.append("*rest")
    elif sig["kwonly"]:
        parts.append("*")
    for j, has_default in enumerate(sig["kwonly"]):
        parts.append(f"{_nm(sig, f'k{j}')}='d{j}'" if has_default else _nm(sig, f"k{j}"))
    if sig["varkw"]:
        parts.append("**extra")
    return ", ".join(parts)


def run_stack(case) -> Outcome:
    """two helper decorators stacked on one coroutine function: the OUTER one must keep working with its own
    configuration and must keep name / doc / __wrapped__ (virtual time)"""
    from hv import vloop

    out = Outcome()
    outer, inner = case["outer"], case["inner"]
    calls: list = []
    obs: dict = {}

    async def main(loop):
        async def target(x):
            "doc of target"
            calls.append((x, loop.time()))
            await asyncio.sleep(case.get("dur", 1.0))
            return ("v", x)

        inner_dec = {
            "timeout": lambda f: timeout(50)(f),
            "throttle": lambda f: throttle(limit=5, period=0.125)(f),
            "cache": lambda f: cache(limit=7)(f),
            "retry": lambda f: retry(limit=2)(f),
            "traced": traced,
            "none": lambda f: f,
        }[inner]
        mid = inner_dec(target)
        if outer == "timeout":
            w = timeout(0.25)(mid)  # shorter than the function: the call must time out at 0.25
            t0 = loop.time()
            try:
                obs["result"] = ("ret", await w(1))
            except TimeoutError:
                obs["result"] = ("timeout", loop.time() - t0)
            except BaseException as exc:  # noqa: BLE001
                obs["result"] = ("exc", repr(exc))
        elif outer == "cache":
            w = cache(limit=2)(mid)
            r1, r2 = await w(1), await w(1)
            await w(2)
            r3 = await w(1)  # limit=2: key 1 is still cached
            obs["result"] = ("cache", len([c for c in calls if c[0] == 1]), r1 is r2 is r3)
        else:  # throttle
            w = throttle(limit=1, period=4.0)(mid)
            await asyncio.gather(w(1), w(2))
            starts = sorted(t for _, t in calls)
            obs["result"] = ("throttle", starts)
        obs["meta"] = (getattr(w, "__name__", None), getattr(w, "__doc__", None), getattr(w, "__wrapped__", None) is mid)

    with ctx.scope("stack") if False else _nullctx():
        res = vloop.run(main)
    if res.outcome == "raise":
        raise res.value
    tag = f"{outer}-over-{inner}"
    if res.outcome == "hang":
        out.violate("stack", f"C18.stack/hang/{tag}", "")
        return out
    r = obs["result"]
    if outer == "timeout" and not (r[0] == "timeout" and r[1] == 0.25):
        out.violate("stack", f"C18.stack/outer-timeout-not-applied/{tag}", f"{r}")
    if outer == "cache" and not (r[1] == 1 and r[2]):
        out.violate("stack", f"C18.stack/outer-cache-not-applied/{tag}", f"function invoked {r[1]}x for one key, same object: {r[2]}")
    if outer == "throttle" and not (len(r[1]) == 2 and r[1][1] - r[1][0] >= 4.0):
        out.violate("stack", f"C18.stack/outer-throttle-not-applied/{tag}", f"starts {r[1]}")
    name, doc, wrapped_ok = obs["meta"]
    if name != "target" or doc != "doc of target":
        out.violate("meta", f"C18.meta/name-or-doc-lost-when-stacked/{tag}", f"{name!r} {doc!r}")
    if not wrapped_ok:
        out.violate("meta", f"C18.meta/__wrapped__-not-the-decorated-function/{tag}", "")
    out.classes = ["stacked-decorators"]
    out.nontrivial = inner != "none"
    return out


def run_bound(case) -> Outcome:
    """a BOUND @asynchronous method handed to another helper (wrap_async / traced / retry / timeout applied to `obj.method`):
    the bound object is an asynchronous function like any other - the outer helper awaits it, retries it, records its
    outcome (real event loop: `asynchronous` uses executor threads)"""
    out = Outcome()
    outer, fail_first, with_executor = case["outer"], case["fail_first"], case["executor"]
    calls: list = []
    executor = ThreadPoolExecutor(1) if with_executor else None

    class Holder:
        def _m(self, x):
            calls.append((x, threading.get_ident()))
            if fail_first and len(calls) == 1:
                raise FnErr("first call fails")
            return ("value", x)

        m = asynchronous(executor=executor)(_m) if with_executor else asynchronous(_m)

    obs: dict = {}

    async def main():
        bound = Holder().m
        w = {"wrap_async": wrap_async, "traced": traced, "retry": retry(limit=2, catching=FnErr), "timeout": timeout(5)}[outer](bound)
        loop_thread = threading.get_ident()
        try:
            async with ctx.scope("bound"):
                r = await w(3)
            obs["result"] = ("ret", r)
        except BaseException as exc:  # noqa: BLE001 - the observation
            obs["result"] = ("exc", exc)
        obs["on_loop_thread"] = [t == loop_thread for _, t in calls]

    try:
        asyncio.run(main())
    finally:
        if executor is not None:
            executor.shutdown(wait=True)
    tag = f"{outer}-over-bound-asynchronous-method"
    kind, val = obs["result"]
    expect_calls = 2 if (fail_first and outer == "retry") else 1
    if asyncio.iscoroutine(val) or asyncio.isfuture(val):
        if asyncio.iscoroutine(val):
            val.close()
        out.violate("bound", f"C18.bound/result-is-an-unawaited-awaitable/{tag}", repr(val)[:120])
    elif fail_first and outer != "retry":
        if kind != "exc" or not isinstance(val, FnErr):
            out.violate("bound", f"C18.bound/exception-changed/{tag}", repr(obs["result"])[:200])
    elif obs["result"] != ("ret", ("value", 3)):
        out.violate("bound", f"C18.bound/result-changed/{tag}", repr(obs["result"])[:200])
    if len(calls) != expect_calls:
        out.violate("bound", f"C18.bound/wrong-number-of-invocations/{tag}", f"{len(calls)} expected {expect_calls}")
    if any(obs["on_loop_thread"]):
        out.violate("bound", f"C18.offloop/ran-on-loop-thread/{tag}", "")
    out.classes = ["bound-asynchronous-method-handed-to-another-helper"]
    out.nontrivial = True
    return out


def _builtin_targets():
    import math
    import zlib

    return {"len": (len, ((1, 2, 3),), 3), "abs": (abs, (-3,), 3), "crc32": (zlib.crc32, (b"x",), zlib.crc32(b"x")), "sqrt": (math.sqrt, (4.0,), 2.0)}


def run_builtin(case) -> Outcome:
    """a helper applied to a callable that is implemented in C (a builtin, an extension-module function: no __annotations__,
    no __dict__, no code object): still the wrapped function - its name and docstring are kept, calls give its result"""
    out = Outcome()
    helper = {"asynchronous": asynchronous, "wrap_async": wrap_async, "traced": traced, "retry": retry, "cache": cache}[case["helper"]]
    fn, args, expected = _builtin_targets()[case["fn"]]
    tag = f"{case['helper']}-over-a-C-implemented-callable"
    try:
        w = helper(fn)
    except Exception as exc:  # noqa: BLE001 - the observation
        out.violate("meta", f"C18.builtin/decorating-failed/{tag}", repr(exc)[:200])
        return out
    for attr in ("__name__", "__qualname__", "__doc__"):
        if getattr(w, attr, "<absent>") != getattr(fn, attr, "<absent>"):
            out.violate("meta", f"C18.meta/{attr}-not-kept/{tag}", f"{getattr(w, attr, '<absent>')!r:.80} vs {getattr(fn, attr, '<absent>')!r:.80}")

    async def main():
        async with ctx.scope("builtin"):
            r = w(*args)
            if asyncio.iscoroutine(r) or asyncio.isfuture(r):
                r = await r
            return r

    try:
        r = asyncio.run(main())
        if r != expected:
            out.violate("meta", f"C18.result/changed/{tag}", f"{r!r} expected {expected!r}")
    except Exception as exc:  # noqa: BLE001 - the observation
        out.violate("meta", f"C18.exception/raised-by-the-wrapper/{tag}", repr(exc)[:200])
    out.classes = ["C-implemented-callable"]
    out.nontrivial = True
    return out


def run_receivers(case) -> Outcome:
    """a decorated METHOD called on distinct instances that compare EQUAL (value objects: a frozen dataclass) or that cannot be
    hashed (a dataclass with __eq__ and no __hash__): the receiver is the first argument - every call runs on ITS instance"""
    import dataclasses

    out = Outcome()
    name = case["helper"]
    executor = ThreadPoolExecutor(1) if name == "asynchronous_executor" else None
    deco = {"asynchronous": asynchronous, "asynchronous_executor": asynchronous(executor=executor) if executor else None, "retry": retry, "traced": traced,
            "retry_args": retry(limit=2), "timeout": None, "wrap": None}[name]  # fmt: skip

    def body(self, x):
        self.log.append(x)
        return (self.tag, x)

    ns = {"m": deco(body), "__annotations__": {"v": int, "tag": str, "log": list}, "tag": dataclasses.field(compare=False, default=""),
          "log": dataclasses.field(compare=False, default_factory=list)}  # fmt: skip
    cls = dataclasses.dataclass(frozen=case["cls"] == "eq")(type("Receiver", (), ns))
    a, b = cls(1, "a"), cls(1, "b")
    tag = f"{name}-method-of-{'equal' if case['cls'] == 'eq' else 'unhashable'}-instances"

    async def main():
        got = []
        async with ctx.scope("receivers"):
            for obj, x in ((a, 1), (b, 2), (a, 3), (b, 4)):
                r = obj.m(x)
                if asyncio.iscoroutine(r) or asyncio.isfuture(r):
                    r = await r
                got.append(r)
        return got

    try:
        got = asyncio.run(main())
        if got != [("a", 1), ("b", 2), ("a", 3), ("b", 4)] or a.log != [1, 3] or b.log != [2, 4]:
            out.violate("receiver", f"C18.args/method-ran-on-another-instance/{tag}", f"results={got} a.log={a.log} b.log={b.log}")
    except Exception as exc:  # noqa: BLE001 - the observation
        out.violate("receiver", f"C18.exception/raised-by-the-wrapper/{tag}", repr(exc)[:200])
    finally:
        if executor is not None:
            executor.shutdown(wait=True)
    out.classes = ["equal-or-unhashable-receivers"]
    out.nontrivial = True
    return out


def run_plain_sync(case) -> Outcome:
    """a traced SYNCHRONOUS function called from plain synchronous code - no event loop is running, there is no scope at all
    ("no scope nesting"): the function is invoked once with its arguments and its outcome reaches the caller"""
    out = Outcome()
    calls: list = []
    err = FnErr("plain")

    def f(x, *, k=2):
        calls.append((x, k))
        if case["outcome"] == "raise":
            raise err
        return ("value", x, k)

    w = traced(f)
    tag = f"traced-sync-without-a-running-loop/{case['outcome']}"
    box: dict = {}

    def in_thread():
        # no event loop is RUNNING here; the thread has a current loop (what the main thread of a fresh process gets from
        # asyncio on demand; scopes keep a future of that loop), set explicitly so that the case does not depend on what ran before
        loop = asyncio.new_event_loop()
        asyncio.set_event_loop(loop)
        try:
            box["r"] = ("ret", w(3, k=4))
        except BaseException as exc:  # noqa: BLE001 - the observation
            box["r"] = ("exc", exc)
        finally:
            asyncio.set_event_loop(None)
            loop.close()

    if case.get("thread"):
        t = threading.Thread(target=in_thread)
        t.start()
        t.join()
    else:
        in_thread()
    kind, val = box["r"]
    if calls != [(3, 4)]:
        out.violate("plain", f"C18.args/not-invoked-exactly-once-with-its-arguments/{tag}", f"calls={calls} result={box['r']!r:.200}")
    if case["outcome"] == "raise":
        if kind != "exc" or val is not err:
            out.violate("plain", f"C18.exception/changed/{tag}", repr(box["r"])[:200])
    elif box["r"] != ("ret", ("value", 3, 4)):
        out.violate("plain", f"C18.result/changed/{tag}", repr(box["r"])[:200])
    out.classes = ["traced-sync-function-called-without-a-running-loop"]
    out.nontrivial = True
    return out


def run_chained(case) -> Outcome:
    """the function raises an exception that carries a CAUSE (`raise A from B`) or an implicit context (raised inside an
    `except` block), or one whose context was suppressed (`from None`): the caller gets that object with its chain untouched"""
    out = Outcome()
    name = case["helper"]
    inner = FnErr("the cause")

    def body(x):
        if case["chain"] == "cause":
            raise FnErr("outer") from inner
        if case["chain"] == "context":
            try:
                raise inner
            except FnErr:
                raise KeyError("outer")  # noqa: B904 - the implicit context is the point
        try:
            raise inner
        except FnErr:
            raise ValueError("outer") from None

    async def abody(x):
        return body(x)

    sync_helpers = {"asynchronous": asynchronous, "wrap_async": wrap_async, "traced": traced, "retry": retry(limit=1, catching=OSError), "cache": cache}
    async_helpers = {"traced_async": traced, "retry_async": retry(limit=1, catching=OSError), "timeout": timeout(5), "cache_async": cache, "throttle": throttle}
    w = sync_helpers[name](body) if name in sync_helpers else async_helpers[name](abody)
    tag = f"{name}/{case['chain']}"

    async def main():
        async with ctx.scope("chained"):
            try:
                r = w(1)
                if asyncio.iscoroutine(r) or asyncio.isfuture(r):
                    r = await r
                return ("ret", r)
            except BaseException as exc:  # noqa: BLE001 - the observation
                return ("exc", exc)

    kind, exc = asyncio.run(main())
    want_type = {"cause": FnErr, "context": KeyError, "suppressed": ValueError}[case["chain"]]
    if kind != "exc" or type(exc) is not want_type:
        out.violate("chain", f"C18.exception/changed/{tag}", repr((kind, exc))[:200])
    elif case["chain"] == "cause" and (exc.__cause__ is not inner or not exc.__suppress_context__):
        out.violate("chain", f"C18.exception/cause-not-kept/{tag}", f"__cause__={exc.__cause__!r} __suppress_context__={exc.__suppress_context__}")
    elif case["chain"] == "context" and (exc.__context__ is not inner or exc.__suppress_context__ or exc.__cause__ is not None):
        out.violate("chain", f"C18.exception/context-not-kept/{tag}", f"__context__={exc.__context__!r} __suppress_context__={exc.__suppress_context__} __cause__={exc.__cause__!r}")
    elif case["chain"] == "suppressed" and (not exc.__suppress_context__ or exc.__cause__ is not None):
        out.violate("chain", f"C18.exception/suppression-not-kept/{tag}", f"__suppress_context__={exc.__suppress_context__} __cause__={exc.__cause__!r}")
    out.classes = ["chained-exception"]
    out.nontrivial = True
    return out


class _nullctx:
    def __enter__(self):
        return self

    def __exit__(self, *a):
        return False


def run_case(case) -> Outcome:  # noqa: C901, PLR0912, PLR0915
    if case.get("kind") == "stack":
        return run_stack(case)
    if case.get("kind") == "bound":
        return run_bound(case)
    if case.get("kind") == "builtin":
        return run_builtin(case)
    if case.get("kind") == "plain_sync":
        return run_plain_sync(case)
    if case.get("kind") == "chained":
        return run_chained(case)
    if case.get("kind") == "receivers":
        return run_receivers(case)
    out = Outcome()
    dec, form, sig = case["dec"], case["form"], case["sig"]
    method = form in ("method", "unbound")
    is_async_orig = dec in ASYNC_ORIGINAL
    threaded = dec in THREADED
    seen: dict = {}
    labels: dict = {}
    keep = []
    outcome = case["outcome"]
    result_value = make_value(outcome["v"]) if outcome["kind"] == "return" else None
    if outcome["kind"] == "raise":
        exc_cls = {"FnErr": FnErr, "FnFalsyErr": FnFalsyErr, "ValueError": ValueError, "KeyError": KeyError, "FnBase": FnBase, **_BUILTIN_RAISED}[outcome["v"]["x"]]
        raised_obj = exc_cls("boom")
    else:
        raised_obj = None
    hb = {"event": threading.Event(), "loop_thread": None, "ticks": 0}

    def _body(loc):
        loc = dict(loc)
        seen["self"] = loc.pop("self", None)
        seen["locals"] = loc
        consumed = {}
        for name, v in list(loc.items()) + list((loc.get("extra") or {}).items()) + list(enumerate(loc.get("rest") or ())):
            if hasattr(v, "__next__"):
                consumed[name] = list(v)
        seen["consumed"] = consumed
        seen["thread"] = threading.get_ident()
        if threaded:
            # the function changes a context variable and does not undo it: that stays inside this one call - neither the
            # caller nor a LATER call (on the same worker thread) sees it; what it reads is what its caller had
            seen.setdefault("marks", []).append(_MARK.get(None))
            _MARK.set("set by an earlier call of the function")
        seen["fp"] = fingerprint(labels)
        if threaded:
            # the loop must keep serving other tasks while we block here: the heartbeat task sets the event
            seen["loop_alive"] = hb["event"].wait(2.0)
        with ctx.updated(P.A(v=99)):
            seen["fp_inner"] = fingerprint(labels).get("A")
            if raised_obj is not None:
                raise raised_obj
            return result_value

    async def _abody(loc):
        """for the 'cancelled' outcome of async originals: suspend until the caller cancels"""
        r = _body(loc)
        if outcome["kind"] == "cancelled":
            seen["suspended"] = True
            await asyncio.get_running_loop().create_future()
        return r

    spawns = bool(case.get("spawns")) and is_async_orig and bool(case["nest"]) and outcome["kind"] != "cancelled"
    release: dict = {}

    async def _sbody(loc):
        """an async original that starts a background task with ctx.spawn and returns without waiting for it (the task
        belongs to the CALLER's scope): the decorated call must return just as promptly"""
        r = None
        err = None
        try:
            r = _body(loc)
        except BaseException as exc:  # noqa: BLE001 - re-raised below, after the task has been started
            err = exc
        ev = asyncio.Event()
        release.setdefault("events", []).append(ev)

        async def background():
            await ev.wait()
            return "background-done"

        seen["spawned"] = ctx.spawn(background)
        if err is not None:
            raise err
        return r

    params = render_sig(sig, method)
    kw = "async def" if is_async_orig else "def"
    ns: dict = {"_body": _body}
    if spawns:
        ns["_body"] = _sbody
    if outcome["kind"] == "cancelled":
        ns["_body"] = _abody
    has_doc = not case.get("nodoc")
    want_doc = "doc of target" if has_doc else None  # a function without a docstring must stay without one
    docline = "'doc of target'" if has_doc else "pass"
    call_body = "await _body(locals())" if (outcome["kind"] == "cancelled" or spawns) else "_body(locals())"
    if method:
        src = f"class Holder:\n    {kw} target({params}):\n        {docline}\n        return {call_body}\n"
    else:
        src = f"{kw} target({params}):\n    {docline}\n    return {call_body}\n"
    exec(compile(src, "<c18>", "exec", dont_inherit=True), ns)  # noqa: S102 - generated from our own signature AST
    original = ns["Holder"].__dict__["target"] if method else ns["target"]
    if case.get("executor") == "custom" and dec == "asynchronous_executor":
        # an executor of the caller's own (concurrent.futures.Executor interface, one thread per call): what the function
        # observes must not depend on which kind of executor carries it
        executor = _ThreadPerCall()
    else:
        executor = ThreadPoolExecutor(2) if case.get("executor") == "explicit" or dec == "asynchronous_executor" else None

    def decorate(fn):
        if dec == "asynchronous_bare":
            return asynchronous(fn)
        if dec == "asynchronous_call":
            return asynchronous()(fn)
        if dec == "asynchronous_executor":
            return asynchronous(executor=executor)(fn)
        if dec in ("wrap_async_sync", "wrap_async_async"):
            return wrap_async(fn)
        if dec in ("traced_sync", "traced_async"):
            return traced(fn)
        if dec == "cache":
            return cache(limit=2)(fn)
        if dec == "retry":
            return retry(limit=1)(fn)
        if dec == "throttle":
            return throttle(limit=3, period=0.001)(fn)
        if dec == "timeout":
            return timeout(5)(fn)
        raise ValueError(dec)

    try:
        wrapped = decorate(original)
    except Exception as exc:  # noqa: BLE001
        out.violate("meta", f"C18.meta/decoration-raised/{dec}", repr(exc))
        return out
    sync_dec = dec in ("traced_sync",)
    receiver = case.get("receiver", "plain") if method else "plain"
    overrides = {"n": 0, "expected": 0}
    if method:
        Holder = ns["Holder"]
        Holder.target = wrapped
        if hasattr(wrapped, "__set_name__"):
            wrapped.__set_name__(Holder, "target")
        obj = Holder()
        if receiver == "super":
            # a subclass overrides the decorated method and delegates to it: every call on the instance must keep
            # going through the override

            if sync_dec:

                def target(self, *a, **k):
                    overrides["n"] += 1
                    return super(Sub, self).target(*a, **k)

            else:

                async def target(self, *a, **k):
                    overrides["n"] += 1
                    return await super(Sub, self).target(*a, **k)

            Sub = type("Sub", (Holder,), {"target": target})
            sub_obj = Sub()
        elif receiver == "falsy":
            # an instance that is falsy (a container-like object that happens to be empty) is a receiver like any other
            obj = type("EmptyHolder", (Holder,), {"__len__": lambda self: 0})()
    # ---------------------------------------------------------------- metadata
    def check_meta(w, where):
        for attr, want in (("__name__", "target"), ("__doc__", want_doc)):
            got = getattr(w, attr, None)
            if got != want:
                out.violate("meta", f"C18.meta/{attr}-lost/{dec}/{where}", f"{got!r}")
        if getattr(w, "__wrapped__", None) is not original:
            out.violate("meta", f"C18.meta/__wrapped__-not-original/{dec}/{where}", repr(getattr(w, "__wrapped__", None)))

    if not (dec == "wrap_async_async"):  # wrap_async returns an async function unchanged: nothing to preserve
        check_meta(wrapped, "function")
        if method:
            try:
                check_meta(obj.target, "bound")
            except Exception as exc:  # noqa: BLE001
                out.violate("meta", f"C18.meta/bound-access-raised/{dec}", repr(exc))
    # ---------------------------------------------------------------- the call
    args = [make_value(a) for a in case["call"]["args"]]
    kwargs = {_nm(sig, k): make_value(v) for k, v in case["call"]["kwargs"].items()}
    captured: list = []
    handler = P.Capture(captured)
    root = logging.getLogger()
    old_level = root.level
    obs: dict = {}

    async def main():
        loop = asyncio.get_running_loop()
        hb["loop_thread"] = threading.get_ident()

        async def heartbeat():
            for _ in range(3):
                await asyncio.sleep(0.0005)
                hb["ticks"] += 1
            hb["event"].set()

        completions: list = []

        async def call_it():
            recv = None
            if method:
                recv = sub_obj if receiver == "super" else obj
                if receiver in ("copy", "super") and outcome["kind"] != "cancelled":
                    # an earlier call on the receiver (first attribute access, first delegation to super())
                    overrides["expected"] += 1
                    try:
                        r0 = recv.target(*args, **kwargs)
                        if not sync_dec:
                            await r0
                    except BaseException as exc:  # noqa: BLE001 - the judged call below reports the outcome
                        if isinstance(exc, (KeyboardInterrupt, SystemExit)):
                            raise
                if receiver == "copy":
                    recv.target  # noqa: B018 - the method has been looked up on the original before it is copied
                    recv = copy.copy(recv)
                overrides["expected"] += 1
            obs["recv"] = recv
            if form == "method":
                target = recv.target
                a = args
            elif form == "unbound":
                target = type(recv).target
                a = [recv, *args]
            else:
                target = wrapped
                a = args
            obs["fp_before"] = fingerprint(labels)
            one_shot = any(isinstance(x, dict) and x.get("k") == "iter" for x in [*case["call"]["args"], *case["call"]["kwargs"].values()])
            if threaded and case.get("twice") and outcome["kind"] != "cancelled" and not spawns and not method and not one_shot:
                # an earlier, complete call from the same place (the worker thread is reused for the judged one)
                try:
                    await target(*a, **kwargs)
                except BaseException as exc:  # noqa: BLE001 - its own outcome; the judged call below reports
                    if isinstance(exc, (KeyboardInterrupt, SystemExit)):
                        raise
                obs["mark_after_first"] = _MARK.get(None)
            _REPR_ARMED[0] = True
            try:
                r = target(*a, **kwargs)
                if outcome["kind"] == "cancelled":
                    t = loop.create_task(r)
                    for _ in range(20):
                        await asyncio.sleep(0)
                        if seen.get("suspended"):
                            break
                    t.cancel()
                    r = await t
                elif spawns:
                    # the call must return although the task it started is still running (released only afterwards)
                    call_task = loop.create_task(r)
                    done, _pending = await asyncio.wait({call_task}, timeout=1.0)
                    obs["returned_before_release"] = bool(done)
                    for ev in release.get("events", []):  # also those of an earlier (warm-up) call
                        ev.set()
                    r = await call_task
                    if seen.get("spawned") is not None:
                        obs["background"] = await seen["spawned"]
                elif not sync_dec:
                    via = case.get("via", "await")
                    if via == "task":
                        # the ordinary ways of running a coroutine function: what the decorated function returns is handed
                        # to a task instead of being awaited in place
                        r = await loop.create_task(r)
                    elif via == "spawn" and case["nest"] and outcome["kind"] == "return":
                        # (a failing spawned task would cancel the scope it was spawned into: task-group semantics, not
                        # the decorator's)
                        r.close()  # not used: ctx.spawn makes the call itself
                        r = await ctx.spawn(target, *a, **kwargs)
                    else:
                        r = await r
                obs["result"] = ("ret", r)
            except BaseException as exc:  # noqa: BLE001 - the observation
                if isinstance(exc, (KeyboardInterrupt, SystemExit)):
                    raise
                obs["result"] = ("exc", exc)
            finally:
                _REPR_ARMED[0] = False
            for ev in release.get("events", []):
                ev.set()
            obs["fp_after"] = fingerprint(labels)

        async def nested(level):
            if level == len(case["nest"]):
                hbt = loop.create_task(heartbeat())
                await call_it()
                await hbt
                return
            states = []
            for i, sv in enumerate(case["nest"][level]):
                s = P.make_state(sv)
                keep.append(s)
                labels[id(s)] = ("nest", level, i)
                states.append(s)

            def completion(metrics, level=level):
                collected = {}

                def merge(cur, rec):
                    collected.setdefault(type(rec).__name__, []).append(rec)
                    return rec

                try:
                    metrics.metrics(merge=merge)
                    for m in metrics.metrics():
                        collected.setdefault(type(m).__name__, []).append(m)
                except Exception as exc:  # noqa: BLE001
                    collected["error"] = repr(exc)
                completions.append((level, collected))

            async with ctx.scope(f"outer{level}", *states, completion=completion):
                await nested(level + 1)

        await nested(0)
        await asyncio.sleep(0.002)
        obs["completions"] = completions

    root.setLevel(logging.DEBUG)
    root.addHandler(handler)
    # a decorated function is not tied to one event loop: the asynchronous / wrap_async wrappers are exercised under
    # two successive loops (the second round is the one judged below; both must invoke the function)
    rounds = 2 if (threaded or dec.startswith("wrap_async")) else 1
    invoked_rounds = 0
    try:
        for _round in range(rounds):
            hb["event"].clear()
            hb["ticks"] = 0
            seen.clear()
            obs.clear()
            release.clear()
            # fresh argument objects per round (one-shot iterators are consumed by the function)
            args = [make_value(a) for a in case["call"]["args"]]
            kwargs = {_nm(sig, k): make_value(v) for k, v in case["call"]["kwargs"].items()}
            with asyncio.Runner() as runner:
                runner.run(main())
            invoked_rounds += 1 if "locals" in seen else 0
    finally:
        root.removeHandler(handler)
        root.setLevel(old_level)
        if executor is not None:
            executor.shutdown(wait=True)
    # ---------------------------------------------------------------- verdicts
    # expected binding of the arguments = what the undecorated function would receive
    expected_locals = _bind(sig, args, kwargs)
    tag = f"{dec}/{form}"
    rk, rv = obs.get("result", ("none", None))
    if "locals" in seen and invoked_rounds != rounds:
        out.violate("transparent", f"C18.transparent/function-not-invoked-under-first-loop/{tag}", f"{invoked_rounds} of {rounds}")
    if "locals" not in seen:
        which = "/under-a-second-event-loop" if invoked_rounds == 1 and rounds == 2 else ""
        out.violate("transparent", f"C18.transparent/function-not-invoked{which}/{tag}", f"result={obs.get('result')!r}")
    else:
        if method and seen.get("self") is not obs.get("recv"):
            out.violate("transparent", f"C18.transparent/wrong-receiver/{tag}/{receiver}", f"self={seen.get('self')!r} receiver={obs.get('recv')!r}")
        if receiver == "super" and overrides["n"] != overrides["expected"]:
            out.violate("transparent", f"C18.transparent/subclass-override-bypassed/{tag}", f"override ran {overrides['n']}x for {overrides['expected']} calls")
        exp_consumed = {}
        for name, v in list(expected_locals.items()) + list((expected_locals.get("extra") or {}).items()) + list(enumerate(expected_locals.get("rest") or ())):
            if hasattr(v, "__next__"):
                exp_consumed[name] = _ITER_ITEMS.get(id(v))
        if exp_consumed and seen.get("consumed") != exp_consumed and seen.get("locals") is not None and receiver == "plain":
            out.violate("transparent", f"C18.transparent/one-shot-iterator-argument-consumed-before-the-function/{tag}", f"function could read {seen.get('consumed')!r}, expected {exp_consumed!r}")
        if not _same_locals(seen["locals"], expected_locals):
            out.violate("transparent", f"C18.transparent/arguments-changed/{tag}", f"received {seen['locals']!r} expected {expected_locals!r}")
        if outcome["kind"] == "cancelled":
            if rk != "exc" or not isinstance(rv, asyncio.CancelledError):
                out.violate("transparent", f"C18.transparent/cancellation-not-propagated/{tag}", f"{obs.get('result')!r}")
        elif outcome["kind"] == "return":
            if rk != "ret" or rv is not result_value:
                out.violate("transparent", f"C18.transparent/result-changed/{tag}", f"{obs.get('result')!r} vs {result_value!r}")
        elif rk != "exc" or rv is not raised_obj:
            out.violate("transparent", f"C18.transparent/exception-changed/{tag}", f"{obs.get('result')!r} vs {raised_obj!r}")
        if threaded:
            if seen["thread"] == hb["loop_thread"]:
                out.violate("offloop", f"C18.offloop/ran-on-loop-thread/{tag}", "")
            if not seen.get("loop_alive"):
                out.violate("offloop", f"C18.offloop/loop-blocked-while-function-runs/{tag}", f"ticks={hb['ticks']}")
        # context in: the function observes the caller's scope state
        before = obs["fp_before"]
        if dec.startswith("traced"):
            # traced opens its own (stateless) scope: outside any scope the function sees "no state" instead of "no context"
            before = {k: (("sentinel", k) if v == "MissingContext" else v) for k, v in before.items()}
        if seen["fp"] != before:
            diff = {k: (seen["fp"][k], before[k]) for k in seen["fp"] if seen["fp"][k] != before[k]}
            out.violate("context", f"C18.context/caller-state-not-visible/{tag}", f"{diff}")
        if seen.get("fp_inner") != ("unknown", "A(v: 99)"):
            out.violate("context", f"C18.context/own-update-not-visible-inside/{tag}", f"{seen.get('fp_inner')}")
    if spawns and "locals" in seen:
        if obs.get("returned_before_release") is False:
            out.violate("transparent", f"C18.transparent/call-waits-for-a-task-the-function-spawned/{tag}", "the decorated call did not return within 1 s while the task started by the function was still running")
        classes_extra = ["function-spawns-a-task"]
    else:
        classes_extra = []
    if any(m is not None for m in seen.get("marks", [])) or obs.get("mark_after_first") is not None:
        out.violate(
            "context",
            f"C18.context/context-change-of-an-earlier-call-visible/{tag}",
            f"the function read {seen.get('marks')} (the caller never set the variable); caller after the first call: {obs.get('mark_after_first')!r}",
        )
    if obs.get("fp_after") != obs.get("fp_before"):
        out.violate("context", f"C18.context/leaked-back-to-caller/{tag}", f"{obs.get('fp_before')} -> {obs.get('fp_after')}")
    # traced: arguments and outcome recorded in a scope named after the function
    if dec.startswith("traced") and __debug__ and case["nest"]:
        outer = [c for lv, c in obs["completions"] if lv == len(case["nest"]) - 1]
        coll = outer[0] if outer else {}
        at = [m for m in coll.get("ArgumentsTrace", []) if isinstance(m, ArgumentsTrace)]
        rt = [m for m in coll.get("ResultTrace", []) if isinstance(m, ResultTrace)]
        call_args = tuple(args if form != "unbound" else args)
        if form in ("method", "unbound"):
            call_args = (obs.get("recv"), *args)
        if not at:
            out.violate("traced", f"C18.traced/arguments-not-recorded/{tag}", f"{coll}")
        else:
            a = at[-1]  # the judged call is the last one made
            exp_a = call_args if call_args else MISSING
            exp_k = kwargs if kwargs else MISSING
            got_a = a.args if a.args is MISSING else tuple(a.args)
            got_k = a.kwargs if a.kwargs is MISSING else dict(a.kwargs)
            if not _eq_ident(got_a, exp_a) or not _eq_ident(got_k, exp_k):
                out.violate("traced", f"C18.traced/wrong-arguments-recorded/{tag}", f"{got_a!r} {got_k!r} vs {exp_a!r} {exp_k!r}")
        want = result_value if outcome["kind"] == "return" else raised_obj
        if not rt:
            out.violate("traced", f"C18.traced/result-not-recorded/{tag}/{outcome['kind']}", f"{coll}")
        elif outcome["kind"] == "cancelled":
            if not isinstance(rt[-1].result, asyncio.CancelledError):
                out.violate("traced", f"C18.traced/wrong-result-recorded/{tag}/cancelled", f"{rt[-1].result!r}")
        elif rt[-1].result is not want:
            out.violate("traced", f"C18.traced/wrong-result-recorded/{tag}", f"{rt[-1].result!r} vs {want!r}")
        # the scope's name is observed through the line the library logs when a scope is entered (wording learned from a
        # calibration scope; None = this library logs nothing that could be recognised, not judged then)
        started = P.scope_log_lines(captured, "target", "enter")
        if started is not None and not started:
            out.violate("traced", f"C18.traced/no-scope-named-after-function/{tag}", f"{[P.record_text(r)[:80] for r in captured][:6]}")
    classes = [dec.split("_")[0], *classes_extra]
    if method:
        classes.append("method")
    if kwargs:
        classes.append("keyword-arguments")
    if case["nest"]:
        classes.append("inside-scope")
    if outcome["kind"] == "raise":
        classes.append("raises")
    if executor is not None:
        classes.append("explicit-executor")
    if isinstance(executor, _ThreadPerCall):
        classes.append("executor-of-the-callers-own-kind")
    if any(hasattr(v, "__next__") for v in [*args, *kwargs.values()]):
        classes.append("one-shot-iterator-argument")
    if receiver != "plain":
        classes.append(f"receiver-{receiver}")
    if sig.get("names"):
        classes.append("wrapper-like-parameter-names")
    out.classes = classes
    out.nontrivial = method or (bool(case["nest"]) and (bool(kwargs) or sig["defaults"] > 0))
    return out


def _eq_ident(a, b):
    if a is MISSING or b is MISSING:
        return a is b
    if isinstance(a, dict):
        return isinstance(b, dict) and list(a) == list(b) and all(a[k] is b[k] or a[k] == b[k] for k in a)
    return len(a) == len(b) and all(x is y or x == y for x, y in zip(a, b))


def _bind(sig, args, kwargs):
    """reference binding (by the signature's own rules): name -> value"""
    loc = {}
    n = sig["pos"]
    for i in range(n):
        name = _nm(sig, f"p{i}")
        if i < len(args):
            loc[name] = args[i]
        elif name in kwargs:
            loc[name] = kwargs[name]
        else:
            loc[name] = i * 10
    if sig["varargs"]:
        loc["rest"] = tuple(args[n:])
    for j, has_default in enumerate(sig["kwonly"]):
        name = _nm(sig, f"k{j}")
        loc[name] = kwargs[name] if name in kwargs else f"d{j}"
    if sig["varkw"]:
        known = {_nm(sig, f"p{i}") for i in range(n)} | {_nm(sig, f"k{j}") for j in range(len(sig["kwonly"]))}
        loc["extra"] = {k: v for k, v in kwargs.items() if k not in known}
    return loc


def _same_locals(a, b):
    if a.keys() != b.keys():
        return False
    for k in a:
        x, y = a[k], b[k]
        if k == "rest":
            if len(x) != len(y) or any(p is not q and p != q for p, q in zip(x, y)):
                return False
        elif k == "extra":
            if x.keys() != y.keys() or any(x[i] is not y[i] and x[i] != y[i] for i in x):
                return False
        elif x is not y and x != y:
            return False
    return True


def strategy(tier):
    value = st.recursive(
        st.one_of(
            st.builds(lambda x: {"k": "int", "x": x}, st.integers(-3, 3)),
            st.builds(lambda x: {"k": "str", "x": x}, st.text(max_size=3)),
            st.just({"k": "none"}),
            st.builds(lambda x: {"k": "state", "x": x}, st.integers(0, 5)),
            st.just({"k": "obj"}),
            st.just({"k": "future"}),
            st.builds(lambda x: {"k": "excinst", "x": x}, st.sampled_from(["ValueError", "TimeoutError", "CancelledError", "FnErr"])),
            st.just({"k": "badrepr"}),
            st.builds(lambda xs, how: {"k": "iter", "items": xs, "how": how}, st.lists(st.integers(0, 9), min_size=1, max_size=3), st.sampled_from(["iter", "gen"])),
        ),
        lambda ch: st.one_of(
            st.builds(lambda xs: {"k": "list", "items": xs}, st.lists(ch, max_size=2)),
            st.builds(lambda xs: {"k": "dict", "items": xs}, st.lists(ch, max_size=2)),
        ),
        max_leaves=4,
    )
    hashable_value = st.one_of(
        st.builds(lambda x: {"k": "int", "x": x}, st.integers(-3, 3)),
        st.builds(lambda x: {"k": "str", "x": x}, st.text(max_size=3)),
        st.just({"k": "none"}),
    )

    @st.composite
    def cases(draw):
        dec = draw(st.sampled_from(DECS + ["asynchronous_bare", "asynchronous_call", "traced_sync", "traced_async"]))
        form = "function"
        if dec in METHOD_DECS:
            form = draw(st.sampled_from(["function", "method", "method", "unbound"]))
        if dec == "cache" and form == "unbound":
            form = "method"
        val = hashable_value if dec == "cache" else value
        pos = draw(st.integers(0, 3))
        defaults = draw(st.integers(0, pos))
        sig = {
            "pos": pos,
            "defaults": defaults,
            "kwonly": draw(st.lists(st.booleans(), max_size=2)),
            "varargs": draw(st.booleans()),
            "varkw": draw(st.booleans()),
        }
        required = pos - defaults
        npos = draw(st.integers(required, pos + (2 if sig["varargs"] else 0)))
        args = [draw(val) for _ in range(npos)]
        kwargs = {}
        for i in range(npos, pos):  # optional positionals given by keyword sometimes
            if draw(st.booleans()):
                kwargs[f"p{i}"] = draw(val)
        for j, has_default in enumerate(sig["kwonly"]):
            if not has_default or draw(st.booleans()):
                kwargs[f"k{j}"] = draw(val)
        if sig["varkw"] and draw(st.booleans()):
            kwargs["zz"] = draw(val)
        if dec != "cache" and (args or kwargs) and draw(st.integers(0, 4)) == 0:
            # one argument is a one-shot iterator / generator
            it = {"k": "iter", "items": draw(st.lists(st.integers(0, 9), min_size=1, max_size=3)), "how": draw(st.sampled_from(["iter", "gen"]))}
            slot = draw(st.integers(0, len(args) + len(kwargs) - 1))
            if slot < len(args):
                args[slot] = it
            else:
                kwargs[sorted(kwargs)[slot - len(args)]] = it
        kind = draw(st.sampled_from(["return", "return", "raise"]))
        if kind == "return":
            outcome = {"kind": "return", "v": draw(value)}
        else:
            outcome = {"kind": "raise", "v": {"x": draw(st.sampled_from(["FnErr", "FnFalsyErr", "FnFalsyErr", "ValueError", "KeyError", *_BUILTIN_RAISED] + ([] if dec in ("retry",) else ["FnBase"])))}}
        if dec == "retry" and kind == "raise":
            outcome = {"kind": "return", "v": draw(value)}  # retry's own behaviour is C14's subject
        if dec in ("wrap_async_sync", "asynchronous_bare", "asynchronous_call", "traced_sync") and outcome["kind"] == "return" and draw(st.integers(0, 3)) == 0:
            outcome = {"kind": "return", "v": {"k": "future"}}  # the function's own result is an awaitable object
        if dec in ("traced_async", "wrap_async_async") and draw(st.integers(0, 4)) == 0:
            outcome = {"kind": "cancelled", "v": {"k": "none"}}  # the call is cancelled while suspended inside the function
        nest = draw(st.lists(st.lists(P.sv_strategy(), max_size=2), max_size=3))
        # some parameters / extra keywords are named like things a wrapper uses itself
        names = {}
        canon = [f"p{i}" for i in range(pos)] + [f"k{j}" for j in range(len(sig["kwonly"]))] + (["zz"] if sig["varkw"] else [])
        if canon and draw(st.integers(0, 2)) == 0:
            for c in canon:
                alt = draw(st.one_of(st.none(), st.sampled_from(NAME_POOL)))
                if alt is not None and alt not in names.values():
                    names[c] = alt
        if names:
            sig["names"] = names
        receiver = draw(st.sampled_from(["plain", "plain", "copy", "super", "falsy"])) if form in ("method", "unbound") else "plain"
        return {
            "dec": dec,
            "form": form,
            "receiver": receiver,
            "sig": sig,
            "call": {"args": args, "kwargs": kwargs},
            "outcome": outcome,
            "nest": nest,
            "nodoc": draw(st.integers(0, 5)) == 0,
            "spawns": draw(st.integers(0, 2)) == 0,
            "via": draw(st.sampled_from(["await", "await", "task", "spawn"])),
            "twice": draw(st.booleans()),
            "executor": draw(st.sampled_from(["default", "explicit", "custom"])) if dec in ("asynchronous_executor",) else "default",
        }

    return cases()


METHOD_DECS = ("asynchronous_bare", "asynchronous_call", "asynchronous_executor", "cache", "traced_sync", "traced_async", "wrap_async_sync", "wrap_async_async", "retry")


def _name_cases():
    """every decorator x call form with ALL wrapper-like names at once, as named parameters given by keyword and as extra
    keywords collected by **kwargs: any collision with a wrapper's own parameter shows as a failed / altered call"""
    for dec in DECS:
        for form in ["function"] + (["method"] if dec in METHOD_DECS else []):
            base = {"dec": dec, "form": form, "receiver": "plain", "outcome": {"kind": "return", "v": {"k": "int", "x": 1}}, "nest": [[{"type": "A", "v": 1}]],
                    "nodoc": False, "executor": "default"}  # fmt: skip
            n = len(NAME_POOL)
            yield {**base, "sig": {"pos": 0, "defaults": 0, "kwonly": [], "varargs": False, "varkw": True},
                   "call": {"args": [], "kwargs": {nm: {"k": "int", "x": i} for i, nm in enumerate(NAME_POOL)}}}  # fmt: skip
            yield {**base, "sig": {"pos": n, "defaults": 0, "kwonly": [], "varargs": False, "varkw": False, "names": {f"p{i}": nm for i, nm in enumerate(NAME_POOL)}},
                   "call": {"args": [], "kwargs": {f"p{i}": {"k": "int", "x": i} for i in range(n)}}}  # fmt: skip


def enumerate_cases(tier):
    """every (outer, inner) pair of stacked helper decorators; every decorator with wrapper-like parameter names"""
    yield from _name_cases()
    for outer in ("timeout", "cache", "throttle"):
        for inner in ("none", "timeout", "throttle", "cache", "retry", "traced"):
            if outer != "timeout" and inner in ("timeout", "throttle", "cache"):
                # cache / throttle decide sync-vs-async with iscoroutinefunction(), which is False for the class-based
                # wrappers (objects with an async __call__): those stackings are not supported by construction
                continue
            yield {"kind": "stack", "outer": outer, "inner": inner, "dur": 1.0}
    for outer in ("wrap_async", "traced", "retry", "timeout"):
        for fail_first in (False, True):
            for executor in (False, True):
                yield {"kind": "bound", "outer": outer, "fail_first": fail_first, "executor": executor}
    for helper in ("asynchronous", "wrap_async", "traced", "retry", "cache"):
        for fn in ("len", "abs", "crc32", "sqrt"):
            yield {"kind": "builtin", "helper": helper, "fn": fn}
    for outcome in ("return", "raise"):
        for thread in (False, True):
            yield {"kind": "plain_sync", "outcome": outcome, "thread": thread}
    for helper in ("asynchronous", "wrap_async", "traced", "retry", "cache", "traced_async", "retry_async", "timeout", "cache_async", "throttle"):
        for chain in ("cause", "context", "suppressed"):
            yield {"kind": "chained", "helper": helper, "chain": chain}
    for helper in ("asynchronous", "asynchronous_executor", "retry", "retry_args", "traced"):
        for cls in ("eq", "unhashable"):
            yield {"kind": "receivers", "helper": helper, "cls": cls}


EXHAUSTIVE_MEANS = "every decorator x {function, method} called with all 34 wrapper-like names as named parameters and as extra keywords; part 'stack': every supported (outer, inner) pair of stacked decorators: timeout over none/timeout/throttle/cache/retry/traced; cache and throttle over none/retry/traced"


def budget(tier):
    return {"examples": 700, "shards": 1} if tier == "quick" else {"examples": 2000, "shards": 16}
