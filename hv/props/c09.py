"""C09 - scope completion fires exactly once, after the whole subtree has been left.

Case: {"tasks": [script...], "choices": [int...]}  (same step protocol as C03)
script steps: {"s":"enter","mode":"async"|"sync","completion":"sync"|"async"} | {"s":"exit"} | {"s":"adv","dt":x}
            | {"s":"spawn","via":"ctx"|"asyncio","task":i}
A scope node is created (ctx.scope(...) called) and entered in one step, left in another; the parent of a node is
whatever scope is current in the creating task (own or inherited), exactly as the library decides it."""

from __future__ import annotations

import asyncio

from hypothesis import strategies as st

from haiway import ctx
from hv import vloop
from hv.core import Outcome
from hv.props.c03 import Sched, _collect, _gc_fence, next_choices

PID = "C09"
LEVEL = "exploration"
TECHNIQUE = "generated scope trees across tasks with explicit enter/exit steps under generated (and, for small trees, all) linearisations; termination-detection invariant over the event log"
RULE = (
    "cases are scope trees of <=5 nodes (sync/async scopes, sync/async completion callbacks) whose children are placed in "
    "the parent's task, in ctx.spawn tasks or in plain asyncio tasks that may outlive the parent (including children "
    "created after the parent was left or completed, from an inherited context), with virtual-clock advances; the choice "
    "list is a linearisation of the enter/exit steps; small trees are run under all linearisations (cap 2000); "
    "non-trivial = >=3 nodes and some child exits or is created after its parent's exit; distinct = distinct tree+schedule"
)
RULE += '; a third of the cases run a garbage collection between any two steps (fenced heap)'
RULE += '; a collection right after every block in gc mode; same-instant histories (zero measured times)'
RULE += '; a long-running task opening several scopes one after another while an inherited chain is being left (all linearisations)'
RULE += '; scopes opened while a cancellation request is pending (all linearisations)'
LEVEL_TEXT = (
    "History invariant over the harness's own event log: every entered-and-left scope fires its completion exactly "
    "once, after its own exit and after the exit of every descendant created before it completed; from then on "
    "is_completed holds and the measured time is frozen; no scope exit raises. Linearisations generated, exhaustive for "
    "small trees."
)
LEVEL_NOTE = "Trusted: step protocol and reference parent stacks (as in C03); ScopeMetrics.is_completed/.time read in callbacks and at the end."
ASSUMPTIONS = [
    "descendants created after a scope completed cannot delay a callback that already ran: only 'exit does not raise', "
    "'their own callback fires once' and 'the ancestor stays completed with unchanged time' are asserted for them",
    "scope objects constructed but never entered are not generated",
]
REQUIRED_CLASSES = ["three-or-more-nodes", "child-exits-after-parent-exit", "child-created-after-parent-exit", "async-callback", "outliving-asyncio-task"]

CAP = 2000


def execute(case, sched: Sched):
    scripts = case["tasks"]
    ev: list = []  # (kind, node, extra)
    nodes: dict = {}  # node id -> {"parent": node|None, "mode", "metrics"}
    obs = {"violations": [], "classes": set(), "hang": False}

    def log(kind, node, **kw):
        ev.append({"k": kind, "n": node, "i": len(ev), **kw})

    async def main(loop):
        tasks: dict = {}

        def fired(node, metrics):
            try:
                done, tm = metrics.is_completed, metrics.time
            except Exception as exc:  # noqa: BLE001
                done, tm = repr(exc), None
            nodes[node]["metrics"] = metrics
            log("fired", node, completed=done, time=tm, vt=loop.time())

        async def runner(tid):
            me = tasks[tid]
            cms = []
            while True:
                me["cmd"] = loop.create_future()
                me["idle"] = True
                cmd = await me["cmd"]
                me["idle"] = False
                if cmd == "stop":
                    break
                step = scripts[tid][me["pos"]]
                me["pos"] += 1
                s = step["s"]
                if s == "enter":
                    node = (tid, me["pos"])
                    parent = me["ref"][-1] if me["ref"] else None
                    nodes[node] = {"parent": parent, "mode": step["mode"], "metrics": None}
                    if step["completion"] == "async":

                        async def cb(m, node=node):
                            fired(node, m)

                    else:

                        def cb(m, node=node):
                            fired(node, m)

                    log("create", node, parent=parent)
                    extra = {"trace_id": step["trace"]} if step.get("trace") else {}
                    cm = ctx.scope(f"n{tid}_{me['pos']}", completion=cb, **extra)
                    if step["mode"] == "async":
                        await cm.__aenter__()
                    else:
                        cm.__enter__()
                    log("entered", node)
                    cms.append((step["mode"], cm, node))
                    me["ref"].append(node)
                elif s == "enter_cancelled":
                    # the task has a cancellation request PENDING when it opens a scope (requested by itself a moment ago, by
                    # a failing sibling's task group ...): the request is delivered at the entrance or at the body's first
                    # suspension; either way the block is over then - and it still counts as left for its ancestors
                    node = (tid, me["pos"])
                    parent = me["ref"][-1] if me["ref"] else None
                    nodes[node] = {"parent": parent, "mode": "async", "metrics": None}

                    def cb(m, node=node):
                        fired(node, m)

                    log("create", node, parent=parent)
                    cm = ctx.scope(f"n{tid}_{me['pos']}", completion=cb)
                    asyncio.current_task().cancel()
                    was_entered = False
                    try:
                        async with cm:
                            was_entered = True
                            log("entered", node)
                            await asyncio.sleep(0)
                            log("exit_start", node)
                    except asyncio.CancelledError:
                        asyncio.current_task().uncancel()
                        if was_entered and not any(e["k"] == "exit_start" and e["n"] == node for e in ev):
                            log("exit_start", node)
                    del cm
                    log("exit_done", node)
                elif s == "exit":
                    if cms:
                        await leave(cms, me)
                elif s == "adv":
                    await asyncio.sleep(step["dt"])
                elif s == "spawn":
                    child = step["task"]
                    if child not in tasks and child < len(scripts):
                        tasks[child] = {"pos": 0, "ref": list(me["ref"]), "idle": False, "cmd": None, "via": step["via"]}
                        if step["via"] == "ctx":
                            try:
                                tasks[child]["task"] = ctx.spawn(runner, child)
                            except RuntimeError:
                                # spawning into a task group that is already finished: not the subject here
                                del tasks[child]
                        else:
                            tasks[child]["task"] = loop.create_task(runner(child))
            while cms:
                await leave(cms, me)

        async def leave(cms, me):
            mode, cm, node = cms.pop()
            me["ref"].pop()
            log("exit_start", node)
            try:
                if mode == "async":
                    await cm.__aexit__(None, None, None)
                else:
                    cm.__exit__(None, None, None)
                del cm  # nothing of the harness keeps the scope object of a block that was left
                if case.get("gc"):
                    # ... and a collection right after the block, before the loop gets a turn (callbacks not yet dispatched)
                    _collect()
                log("exit_done", node)
            except asyncio.CancelledError:
                log("exit_cancelled", node)
                raise
            except BaseException as exc:  # noqa: BLE001 - "leaving a scope never fails because of completion bookkeeping"
                log("exit_raised", node, exc=repr(exc))

        tasks[0] = {"pos": 0, "ref": [], "idle": False, "cmd": None, "via": "root"}
        tasks[0]["task"] = loop.create_task(runner(0))
        await vloop.settle()
        while True:
            runnable = [t for t in sorted(tasks) if tasks[t]["idle"] and tasks[t]["pos"] < len(scripts[t]) and not tasks[t]["task"].done()]
            if not runnable:
                break
            tid = runnable[sched.pick(len(runnable))]
            tasks[tid]["cmd"].set_result("step")
            await vloop.settle()
            if case.get("gc"):
                # a garbage collection between any two steps must change nothing (a scope that has been left but still
                # waits for its subtree is referenced by nobody but that subtree)
                _collect()
            if not case.get("same_instant"):
                await asyncio.sleep(0.125)  # the clock moves between steps, so frozen times are distinguishable
            # "same_instant": every step happens at ONE clock value (a coarse clock, a fast program): scopes measure 0.0, which
            # is a measured time like any other - the clock only moves afterwards
        for _ in range(len(scripts) + 3):
            await asyncio.sleep(1.5)  # let clock-advance steps in flight finish
            await vloop.settle()
            for t in sorted(tasks, reverse=True):
                if tasks[t]["idle"] and not tasks[t]["task"].done():
                    tasks[t]["cmd"].set_result("stop")
            await vloop.settle()
        await asyncio.sleep(1)
        await vloop.settle()
        obs["pending"] = [t for t in tasks if not tasks[t]["task"].done()]
        obs["vias"] = {t: tasks[t]["via"] for t in tasks}
        # final reading of every metrics object we were handed
        for node, info in nodes.items():
            m = info["metrics"]
            if m is not None:
                try:
                    info["final"] = (m.is_completed, m.time)
                except Exception as exc:  # noqa: BLE001
                    info["final"] = (repr(exc), None)
        return None

    res = vloop.run(main)
    if res.outcome == "raise":
        raise res.value
    obs["hang"] = res.outcome == "hang"
    obs["errors"] = res.errors
    obs["ev"], obs["nodes"] = ev, nodes
    return obs


def judge(obs, out: Outcome, sched):
    ev, nodes = obs["ev"], obs["nodes"]
    schedule = [c for c, _ in sched.trace]
    classes = set()
    if obs["hang"]:
        out.violate("term", "C09.term/hang", f"schedule={schedule}")
        return classes
    first = lambda kind, node: next((e for e in ev if e["k"] == kind and e["n"] == node), None)  # noqa: E731
    fires = {n: [e for e in ev if e["k"] == "fired" and e["n"] == n] for n in nodes}
    if len(nodes) >= 3:
        classes.add("three-or-more-nodes")
    for n, info in nodes.items():
        entered, ex_start = first("entered", n), first("exit_start", n)
        ex_done, ex_raised = first("exit_done", n), first("exit_raised", n)
        if ex_raised is not None:
            late = info["parent"] is not None and _completed_before(ev, fires, info["parent"], first("create", n)["i"])
            out.violate(
                "exit",
                f"C09.exit/scope-exit-raised/{'child-created-after-parent-completed' if late else 'regular'}/{info['mode']}",
                f"node {n} exit raised {ex_raised['exc']}; schedule={schedule}",
            )
        if entered is None or ex_start is None:
            continue
        left = ex_done or ex_raised
        f = fires[n]
        if len(f) == 0:
            out.violate("once", f"C09.once/never-fired/{info['mode']}", f"node {n} (parent {info['parent']}); schedule={schedule}")
            continue
        if len(f) > 1:
            out.violate("once", "C09.once/fired-more-than-once", f"node {n}: {len(f)} times; schedule={schedule}")
        t_fire = f[0]["i"]
        if left is not None and t_fire < left["i"] and t_fire < ex_start["i"]:
            out.violate("order", "C09.order/fired-before-own-exit", f"node {n}; schedule={schedule}")
        if f[0]["completed"] is not True:
            out.violate("state", "C09.state/not-completed-inside-callback", f"node {n}: {f[0]['completed']}; schedule={schedule}")
        fin = info.get("final")
        if fin is not None:
            if fin[0] is not True:
                out.violate("state", "C09.state/not-completed-at-the-end", f"node {n}: {fin}; schedule={schedule}")
            elif fin[1] != f[0]["time"]:
                out.violate("state", "C09.state/time-changed-after-completion", f"node {n}: {f[0]['time']} -> {fin[1]}; schedule={schedule}")
        # descendants created before n completed must have been left before n fired
        for c, cinfo in nodes.items():
            if not _is_descendant(nodes, c, n):
                continue
            c_create = first("create", c)["i"]
            c_left = first("exit_done", c) or first("exit_raised", c)
            p_exit = left["i"] if left is not None else None
            if p_exit is not None and c_create > p_exit:
                classes.add("child-created-after-parent-exit")
            if p_exit is not None and c_left is not None and c_left["i"] > p_exit:
                classes.add("child-exits-after-parent-exit")
            if c_create < t_fire:
                if c_left is None or c_left["i"] > t_fire:
                    out.violate(
                        "order",
                        "C09.order/fired-before-descendant-left",
                        f"node {n} fired at {t_fire} although descendant {c} (created {c_create}) left at {c_left and c_left['i']}; schedule={schedule}",
                    )
    if any(e["k"] == "fired" for e in ev) and any(s.get("completion") == "async" for sc in [] for s in sc):
        pass
    bad = [x for x in obs["errors"] if "never retrieved" not in str(x.get("message", ""))]
    if bad:
        out.violate("exit", "C09.exit/loop-error", "; ".join(f"{x.get('message')}: {x.get('exception')!r}" for x in bad)[:500] + f"; schedule={schedule}")
    if obs["pending"]:
        out.violate("term", "C09.term/tasks-stuck", f"{obs['pending']}; schedule={schedule}")
    return classes


def _is_descendant(nodes, c, n):
    p = nodes[c]["parent"]
    while p is not None:
        if p == n:
            return True
        p = nodes[p]["parent"]
    return False


def _completed_before(ev, fires, node, idx):
    return any(f["i"] < idx for f in fires.get(node, []))


def run_case(case) -> Outcome:
    out = Outcome()
    runs = 0
    classes = set()
    if case.get("gc"):
        _gc_fence()
        classes.add("gc-between-steps")
    has_async_cb = any(s.get("completion") == "async" for sc in case["tasks"] for s in sc)
    outliving = any(s["s"] == "spawn" and s["via"] == "asyncio" for sc in case["tasks"] for s in sc)
    if case.get("exhaustive"):
        choices = []
        complete = True
        while choices is not None:
            sched = Sched(choices)
            obs = execute(case, sched)
            runs += 1
            classes |= judge(obs, out, sched)
            if out.violations:
                break
            choices = next_choices(sched.trace)
            if runs >= CAP:
                complete = choices is None
                break
        if complete:
            classes.add("exhaustive-linearisations")
        else:
            out.unspecified.append("linearisation-cap-hit")
    else:
        sched = Sched(case.get("choices"))
        obs = execute(case, sched)
        runs = 1
        classes |= judge(obs, out, sched)
    if has_async_cb:
        classes.add("async-callback")
    if outliving:
        classes.add("outliving-asyncio-task")
    out.classes = sorted(classes)
    out.counts = {"executions": runs}
    out.nontrivial = "three-or-more-nodes" in classes and bool(classes & {"child-exits-after-parent-exit", "child-created-after-parent-exit"})
    return out


def strategy(tier):
    mode = st.sampled_from(["async", "sync"])
    comp = st.sampled_from(["sync", "sync", "async"])

    @st.composite
    def chain(draw):
        """grandparent -> parent -> child in an outliving task: the ancestors are left while the descendant is inside"""
        def enter():
            # an explicit trace id (own or different from the parent's) must not change the completion tree
            return {"s": "enter", "mode": draw(mode), "completion": draw(comp), "trace": draw(st.sampled_from([None, None, "t1", "t2"]))}

        depth = draw(st.integers(1, 3))
        root = [enter() for _ in range(depth)]
        root.append({"s": "spawn", "via": draw(st.sampled_from(["asyncio", "asyncio", "ctx"])), "task": 1})
        root += [{"s": "exit"} for _ in range(draw(st.integers(0, depth)))]
        child = [enter()]
        if draw(st.booleans()):
            child.append(enter())
        if draw(st.booleans()):
            child.insert(draw(st.integers(0, len(child))), {"s": "adv", "dt": 1})
        child += [{"s": "exit"} for _ in range(draw(st.integers(0, 2)))]
        scripts = [root, child]
        if draw(st.booleans()):
            child.insert(draw(st.integers(1, len(child))), {"s": "spawn", "via": "asyncio", "task": 2})
            scripts.append([enter(), {"s": "exit"}])
        exhaustive = draw(st.integers(0, 3)) == 0
        choices = None if exhaustive else draw(st.lists(st.sampled_from([0, 0, 0, 1, 1, 2]), min_size=0, max_size=16))
        return {"tasks": scripts, "choices": choices, "exhaustive": exhaustive, "gc": draw(st.integers(0, 2)) == 0, "same_instant": draw(st.integers(0, 3)) == 0}

    @st.composite
    def cases(draw):
        exhaustive = draw(st.integers(0, 9)) == 0
        ntasks = draw(st.integers(1, 3))
        budget_nodes = 4 if exhaustive else 5
        scripts = []
        for tid in range(ntasks):
            steps = []
            depth = 0
            n = draw(st.integers(1, 5))
            for _ in range(n):
                kinds = ["enter", "enter", "adv"] if budget_nodes > 0 else ["adv"]
                if depth > 0:
                    kinds += ["exit", "exit"]
                k = draw(st.sampled_from(kinds))
                if k == "enter":
                    steps.append({"s": "enter", "mode": draw(st.sampled_from(["async", "sync"])), "completion": draw(st.sampled_from(["sync", "sync", "async"])),
                                  "trace": draw(st.sampled_from([None, None, "t1", "t2"]))})
                    depth += 1
                    budget_nodes -= 1
                elif k == "exit":
                    steps.append({"s": "exit"})
                    depth -= 1
                else:
                    steps.append({"s": "adv", "dt": draw(st.sampled_from([0.25, 1]))})
            scripts.append(steps)
        for child in range(1, ntasks):
            parent = draw(st.integers(0, child - 1))
            # mostly spawn from INSIDE a scope (right after an enter), so that the child inherits it and can outlive it
            inside = [i + 1 for i, stp in enumerate(scripts[parent]) if stp["s"] == "enter"]
            pos = draw(st.sampled_from(inside)) if inside and draw(st.integers(0, 4)) > 0 else draw(st.integers(0, len(scripts[parent])))
            scripts[parent].insert(pos, {"s": "spawn", "via": draw(st.sampled_from(["ctx", "asyncio", "asyncio"])), "task": child})
        choices = None if exhaustive else draw(st.lists(st.sampled_from([0, 0, 0, 1, 1, 2]), min_size=0, max_size=24))
        return {"tasks": scripts, "choices": choices, "exhaustive": exhaustive, "gc": draw(st.integers(0, 3)) == 0, "same_instant": draw(st.integers(0, 3)) == 0}

    @st.composite
    def late_sequence(draw):
        """a long-running plain task that inherited the innermost scope of a chain opens several scopes ONE AFTER ANOTHER while
        the chain is being left: each of them belongs under whatever ancestor is still open at that moment, under all
        linearisations"""
        def enter():
            return {"s": "enter", "mode": draw(mode), "completion": draw(comp), "trace": None}

        depth = draw(st.integers(2, 3))
        root = [enter() for _ in range(depth)] + [{"s": "spawn", "via": "asyncio", "task": 1}] + [{"s": "exit"} for _ in range(depth)]
        child = []
        for _ in range(draw(st.integers(2, 5 - depth))):
            child += [enter(), {"s": "exit"}]
        return {"tasks": [root, child], "choices": None, "exhaustive": True, "gc": False, "same_instant": draw(st.integers(0, 3)) == 0}

    @st.composite
    def cancelled_entrance(draw):
        """a scope opened by a task that has a cancellation request pending, somewhere inside a chain of open scopes (own task or
        a spawned / plain task): it is over at once, and the chain completes when it has been left"""
        def enter():
            return {"s": "enter", "mode": draw(mode), "completion": draw(comp), "trace": None}

        depth = draw(st.integers(1, 3))
        where = draw(st.sampled_from(["own", "asyncio", "ctx"]))
        if where == "own":
            root = [enter() for _ in range(depth)] + [{"s": "enter_cancelled"}] + [{"s": "exit"} for _ in range(depth)]
            scripts = [root]
        else:
            root = [{**enter(), "mode": "async"} for _ in range(depth)] + [{"s": "spawn", "via": where, "task": 1}] + [{"s": "exit"} for _ in range(depth)]
            scripts = [root, [{"s": "enter_cancelled"}, *([enter(), {"s": "exit"}] if draw(st.booleans()) else [])]]
        return {"tasks": scripts, "choices": None, "exhaustive": True, "gc": False, "same_instant": draw(st.integers(0, 3)) == 0}

    return st.one_of(cases(), cases(), cases(), chain(), chain(), chain(), late_sequence(), cancelled_entrance())


def budget(tier):
    return {"examples": 1200, "shards": 1} if tier == "quick" else {"examples": 5000, "shards": 16}
