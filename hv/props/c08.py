"""C08 - disposables are entered once, exited once, and their cleanup errors surface.

Case: {"outer": bool, "state": [SV], "disp": [Disp], "disp_obj": bool, "body": "return"|"raise"|"base"|"cancel",
       "inject": iteration | null}
With body == "cancel" and no "inject" the harness enumerates victim.cancel() at every loop iteration of the dry run."""

from __future__ import annotations

import asyncio
import itertools

from hypothesis import strategies as st

from hv import progs as P
from hv.core import Outcome

PID = "C08"
LEVEL = "fault_enumeration"
TECHNIQUE = "scripted test-double disposables (fail/suspend in enter and exit, all completion orders via virtual times) x body outcomes x exhaustive cancellation crash points; call-ledger oracle"
RULE = (
    "cases are one async scope (optionally inside an outer scope with competing state) with 0-4 test-double disposables, "
    "each with enter in {ok, raise, suspend->ok, suspend->raise}, yields in {none, one state, two states}, exit likewise, "
    "suspension times chosen so that every completion order occurs, body outcome in {return, raise Exception, raise "
    "BaseException, cancelled}; for 'cancelled' every loop iteration of the program is a crash point (one run each); "
    "thorough enumerates all behaviours for <=2 disposables; non-trivial = >=2 disposables with a failure or suspension, "
    "or a failing body with >=1 disposable; distinct = distinct case"
)
RULE += '; a disposable may yield exactly one state object that is falsy'
RULE += '; body outcomes include a falsy exception instance; disposables may fail with a non-Exception BaseException'
RULE += '; disposables may compare equal to each other'
RULE += '; a disposable may raise its own CancelledError from its exit'
RULE += "; disposables that absorb an interruption; entering that ends with the disposable's own CancelledError"
RULE += '; scopes opened by a task that absorbed a cancellation earlier; disposables that probe the visible state / work inside a block of their own while entering'
LEVEL_TEXT = (
    "Fault enumeration: the disposable behaviour space is enumerated completely for <=2 disposables (thorough) and "
    "sampled for 3-4; for cancelled bodies every loop iteration is a crash point. The oracle is the doubles' call ledger: "
    "enter<=1, body iff all entered, exit exactly once for every entered disposable with the body's exception details, "
    "yielded state visible, every cleanup error reachable from the caller's exception."
)
LEVEL_NOTE = "Trusted: virtual loop determinism; the ledger written by the test doubles; single injected cancellation per run."
ASSUMPTIONS = [
    "a disposable whose enter did not complete (failed or was still suspended) must not be exited (context-manager protocol)",
    "how several cleanup errors are packaged is free: each must be reachable (identity, group leaf, or cause / not-suppressed context chain)",
    "when the BODY was cancelled and a cleanup fails, which of the two the caller sees is free, but the cleanup error must stay reachable from it; cancellations landing during enter or after the body's last instruction are not judged",
    "a disposable's __aexit__ may return True: the scope must not treat that as permission to swallow the body's exception",
]
EXHAUSTIVE_MEANS = "thorough: all (enter, yields, exit) behaviours for <=2 disposables x body outcomes {return, raise}, plus crash points of the cancelled variants"
REQUIRED_CLASSES = ["two-or-more-disposables", "enter-failure", "exit-failure", "suspension", "body-raises", "cancelled-body"]

BEH = [
    {"b": "ok"},
    {"b": "raise"},
    {"b": "suspend_ok", "t": 0.5},
    {"b": "suspend_raise", "t": 0.5},
]
YIELDS = [None, {"type": "A", "v": 1}, [{"type": "B", "v": 2}, {"type": "G[int]", "v": 3}]]


def program(case):
    inner_body = [
        {"k": "probe", "lookups": [[n, True] for n in P.FAMILY]},
        {"k": "sleep", "t": 1},
    ]
    if case["body"] == "raise":
        inner_body.append({"k": "raise", "exc": "Exception"})
    elif case["body"] == "falsy":
        inner_body.append({"k": "raise", "exc": "FalsyExc"})  # an exception whose instance is falsy: same details as any other
    elif case["body"] == "base":
        inner_body.append({"k": "raise", "exc": "BaseExc"})
    inner = {
        "k": "scope", "mode": "async", "name": "inner", "state": case["state"], "disp": case["disp"],
        "disp_obj": case["disp_obj"], "body": inner_body,
    }  # fmt: skip
    tail = {"k": "probe", "lookups": [], "fp": True}
    pre = []
    if case.get("rival"):
        # an unrelated scope with its own disposables entering and living in ANOTHER task at the same time: the two scopes'
        # bookkeeping must not mix
        ok = {"b": "ok"}
        rival_scope = {
            "k": "scope", "mode": "async", "name": "rival", "state": [], "disp_obj": False,
            "disp": [{"enter": {"b": "suspend_ok", "t": 0.375}, "yields": None, "exit": ok, "as": "list"},
                     {"enter": ok, "yields": None, "exit": ok, "as": "list"}],
            "body": [{"k": "sleep", "t": 1.25}],
        }  # fmt: skip
        pre = [{"k": "spawn", "via": "asyncio", "body": [{"k": "sleep", "t": case["rival"]}, rival_scope]}]
    # the task that opens the scope absorbed a cancellation request earlier (it is running clean-up code)
    absorbed = [{"k": "absorb_cancel"}] if case.get("absorbed_cancel") else []
    if case["outer"]:
        return {"body": [*pre, {"k": "scope", "mode": "async", "name": "outer", "state": [{"type": "A", "v": 9}, {"type": "B", "v": 9}],
                                "disp": None, "body": [*absorbed, inner, tail]}]}  # fmt: skip
    return {"body": [*pre, *absorbed, inner, tail]}


def contains(exc, target, seen=None) -> bool:
    seen = seen or set()
    if exc is None or id(exc) in seen:
        return False
    seen.add(id(exc))
    if exc is target:
        return True
    # a CancelledError that ends a task is re-created by asyncio on its way out of that task (disposables run in tasks of
    # their own): a disposable's own CancelledError reaches the caller as A CancelledError, not as the same object
    if isinstance(target, asyncio.CancelledError) and isinstance(exc, asyncio.CancelledError):
        return True
    if isinstance(exc, BaseExceptionGroup) and any(contains(e, target, seen) for e in exc.exceptions):
        return True
    if contains(exc.__cause__, target, seen):
        return True
    # an implicit context that was explicitly suppressed (`raise ... from None`) is hidden from every report
    return (not exc.__suppress_context__) and contains(exc.__context__, target, seen)


def judge(case, run, res, out: Outcome, inject):
    first = 1 if case.get("rival") else 0
    # what a disposable sees while it is entering is the state visible where the scope is opened - whatever its siblings do
    for e in run.log:
        if e["ev"] == "d_enter_probe":
            opened = next((b for b in run.log if b["ev"] == "block_enter" and tuple(b["path"]) == tuple(e["path"])), None)
            if opened is not None and opened["fp"]["state"] != e["state"]:
                diff = {k: (opened["fp"]["state"][k], v) for k, v in e["state"].items() if opened["fp"]["state"].get(k) != v}
                out.violate("enter", "C08.enter/disposable-sees-state-that-is-not-the-opening-position's", f"disposable {e['j']} at its {e['when']}: {diff}")
                break
    shift = 1 if case.get("absorbed_cancel") else 0  # the absorbing step sits right before the scope
    path = (first, shift) if case["outer"] else (first + shift,)
    n = len(case["disp"])
    if case.get("rival"):
        rpath = (0, "t", 1)
        for j in (0, 1):
            rex = [e for e in run.log if e["ev"] == "d_exit_call" and tuple(e["path"]) == rpath and e.get("j") == j]
            if len(rex) > 1:
                out.violate("exit", "C08.exit/disposable-of-another-scope-exited-twice", f"rival disposable {j}: {len(rex)} exits; inject={inject}")
            for e in rex:
                if e["exc"] is not None and not isinstance(e["exc"], asyncio.CancelledError):
                    out.violate("exit", "C08.exit/disposable-of-another-scope-exited-with-foreign-error", f"rival disposable {j} received {e['exc']!r}; inject={inject}")
            ren = [e for e in run.log if e["ev"] == "d_enter_done" and tuple(e["path"]) == rpath and e.get("j") == j]
            rbody = [e for e in run.log if e["ev"] in ("body_end",) and tuple(e["path"]) == rpath]
            if ren and rex and rbody and rex[0]["it"] < rbody[0]["it"]:
                out.violate("exit", "C08.exit/disposable-of-another-scope-exited-while-its-body-runs", f"rival disposable {j}; inject={inject}")
    tag = "cancel" if inject is not None else case["body"]
    log = [e for e in run.log if tuple(e["path"])[: len(path)] == path]
    ev = lambda kind, j=None: [e for e in log if e["ev"] == kind and tuple(e["path"]) == path and (j is None or e.get("j") == j)]  # noqa: E731
    if res["outcome"] == "hang":
        out.violate("term", f"C08.term/hang/{tag}", f"inject={inject}")
        return
    body_start = ev("body_start")
    body_end_t = None
    for e in log:
        # the body's last instruction (a body cut short by cancellation has no such marker: ordering not judged then)
        if e["ev"] in ("body_end", "raise"):
            body_end_t = e
            break
    block_exit = ev("block_exit")[0] if ev("block_exit") else None
    seq = {id(e): i for i, e in enumerate(run.log)}
    first_enter_failure = next((e for e in log if e["ev"] == "d_enter_raise"), None)
    cleanup_started = body_end_t if body_end_t is not None else first_enter_failure
    exit_phase_cancel = inject is not None and cleanup_started is not None and cleanup_started["it"] < inject
    entered, enter_failed = [], []
    for j in range(n):
        calls, done = ev("d_enter_call", j), ev("d_enter_done", j)
        if len(calls) > 1:
            out.violate("enter", f"C08.enter/entered-twice/{tag}", f"disposable {j}")
        if done:
            entered.append(j)
        elif calls:
            enter_failed.append(j)
    all_entered = len(entered) == n
    # (1) all entered before the body when nothing failed
    if body_start:
        if not all_entered:
            out.violate("body", f"C08.body/ran-although-enter-failed/{tag}", f"entered={entered} of {n}; inject={inject}")
        for j in entered:
            if seq[id(ev("d_enter_done", j)[0])] > seq[id(body_start[0])]:
                out.violate("enter", f"C08.enter/after-body-start/{tag}", f"disposable {j}")
    else:
        enter_interrupted = inject is not None and res["injected"] and not all_entered
        if all_entered and not enter_interrupted and not (inject is not None and res["injected"]):
            out.violate("body", f"C08.body/never-ran-although-all-entered/{tag}", f"n={n}")
    # (3) exit exactly once for every entered disposable
    body_exc = block_exit["exc"] if block_exit else None
    raise_ev = [e for e in log if e["ev"] == "raise"]
    expected_body_exc = raise_ev[0]["exc"] if raise_ev else None
    exit_errors = []
    for j in range(n):
        calls = ev("d_exit_call", j)
        if len(calls) > 1:
            out.violate("exit", f"C08.exit/exited-twice/{tag}", f"disposable {j}; inject={inject}")
        if calls and j not in entered:
            # the context-manager protocol: __aexit__ belongs to a completed __aenter__ only
            out.violate("exit", f"C08.exit/exited-although-enter-did-not-complete/{tag}", f"disposable {j}; entered={entered}; inject={inject}")
        if j in entered and len(calls) == 0 and exit_phase_cancel:
            # the statement quantifies over how the BODY ends; a cancellation that lands after the body's last
            # instruction interrupts the cleanup itself (not judged beyond "at most once")
            out.unspecified.append("cancel-during-exit-phase")
        elif j in entered and len(calls) == 0:
            why = "another-enter-failed" if (enter_failed or not all_entered) and not body_start else "body-ran"
            out.violate(
                "exit",
                f"C08.exit/entered-but-never-exited/{why}/{tag}",
                f"disposable {j} entered, exit never called; entered={entered} enter_failed={enter_failed} inject={inject}",
            )
        if calls:
            c = calls[0]
            if body_start and body_end_t is not None and seq[id(c)] < seq[id(body_end_t)]:
                out.violate("exit", f"C08.exit/before-body-end/{tag}", f"disposable {j}")
            # (4) exception details of the body
            if body_start:
                if expected_body_exc is not None:
                    if c["exc"] is not expected_body_exc or c["et"] is not type(expected_body_exc) or not c["has_tb"]:
                        out.violate("details", f"C08.details/wrong-exception-details/{tag}", f"disposable {j} got {c['et']} {c['exc']!r}")
                elif inject is None:
                    if c["et"] is not None or c["exc"] is not None:
                        out.violate("details", f"C08.details/details-on-normal-exit/{tag}", f"disposable {j} got {c['et']} {c['exc']!r}")
                else:
                    body_done = any(e["ev"] == "body_end" for e in log)
                    if not body_done and not (c["et"] is not None and issubclass(c["et"], asyncio.CancelledError)):
                        out.violate("details", f"C08.details/cancelled-body-without-cancel-details/{tag}", f"disposable {j} got {c['et']} {c['exc']!r}; inject={inject}")
        for e in ev("d_exit_raise", j):
            exit_errors.append(e["exc"])
        if inject is None and ev("d_exit_cancelled", j):
            # nobody cancelled anything in this run: a cleanup that is still running may not be interrupted because ANOTHER
            # disposable's cleanup failed ("exited ... whichever other disposables fail"); what it would have reported is lost
            out.violate("exit", f"C08.exit/cleanup-interrupted-by-another-disposables-failure/{tag}", f"disposable {j}: its __aexit__ received a CancelledError while suspended")
    # (5) yielded state visible in the body
    if body_start:
        probe = [e for e in log if e["ev"] == "probe" and tuple(e["path"])[: len(path)] == path]
        if probe:
            got = {nme: r for nme, _, r in probe[0]["lookups"]}
            explicit = {sv["type"] for sv in case["state"]}
            for j, d in enumerate(case["disp"]):
                y = d.get("yields")
                ys = [] if y is None else ([y] if isinstance(y, dict) else y)
                for i, sv in enumerate(ys):
                    allowed = [(path, "d", jj, ii) for jj, dd in enumerate(case["disp"]) for ii, s2 in enumerate(
                        [] if dd.get("yields") is None else ([dd["yields"]] if isinstance(dd["yields"], dict) else dd["yields"])) if s2["type"] == sv["type"]]
                    allowed += [(path, "s", ii) for ii, s2 in enumerate(case["state"]) if s2["type"] == sv["type"]]
                    r = got.get(sv["type"])
                    if r is None or r[0] != "val" or tuple(r[1]) not in [tuple(a) for a in allowed]:
                        out.violate("state", f"C08.state/yielded-state-not-visible/{tag}", f"type {sv['type']} -> {r}; allowed {allowed}")
            del explicit
    # (6) cleanup errors surface
    caller_exc = block_exit["exc"] if block_exit else None
    cancelled_caller = inject is not None and isinstance(caller_exc, asyncio.CancelledError)
    if cancelled_caller and exit_errors:
        # double fault: a cancellation and a cleanup error compete; C07 demands that the cancellation survives, so
        # WHICH of the two the caller sees is not specified by either statement - but the cleanup error may not vanish
        # without a trace: it has to be reachable from what the caller sees (group leaf, __cause__ or __context__)
        out.unspecified.append("cleanup-error-under-cancellation")
    # (a cancellation that lands while the disposables are still ENTERING, or after the body's last instruction, is
    # outside "however the body ends": what happens to cleanup errors then is not judged)
    judged = exit_errors if (not cancelled_caller or (body_start and not exit_phase_cancel)) else []
    for x in judged:
        if not contains(caller_exc, x):
            k = "single" if len(exit_errors) == 1 else "multiple"
            under = "/under-cancellation" if cancelled_caller else ""
            out.violate(
                "surface",
                f"C08.surface/cleanup-error-vanished/{k}/{tag}{under}",
                f"exit raised {x!r}; caller saw {caller_exc!r} (context {getattr(caller_exc, '__context__', None)!r}); inject={inject}",
            )
    # an enter error must reach the caller too (the body never ran; nothing else can be reported)
    for j in range(n):
        for e in ev("d_enter_raise", j):
            if cancelled_caller:
                out.unspecified.append("enter-error-under-cancellation")
            elif not contains(caller_exc, e["exc"]):
                out.violate("surface", f"C08.surface/enter-error-vanished/{tag}", f"{e['exc']!r} vs {caller_exc!r}")
    # body exception identity when no cleanup failed
    if expected_body_exc is not None and not exit_errors and inject is None and caller_exc is not expected_body_exc:
        out.violate("surface", f"C08.surface/body-exception-replaced/{tag}", f"{caller_exc!r} instead of {expected_body_exc!r}")
    # doubles still running after the block (gather without waiting)
    after = block_exit
    if after is not None:
        late = [e for e in run.log if e["ev"].startswith("d_") and seq[id(e)] > seq[id(after)] and tuple(e["path"]) == path]
        if late:
            out.violate("exit", f"C08.exit/disposable-activity-after-block/{tag}", f"{[(e['ev'], e.get('j')) for e in late]}; inject={inject}")


def run_case(case) -> Outcome:
    out = Outcome()
    prog = program(case)
    runs = 0
    if case["body"] != "cancel":
        run, res = P.execute(prog)
        runs += 1
        judge(case, run, res, out, None)
    else:
        run, dry = P.execute(prog)
        runs += 1
        judge(dict(case, body="return"), run, dry, out, None)
        points = [case["inject"]] if case.get("inject") is not None else range(1, dry["iterations"] + 1)
        for k in points:
            if out.violations:
                break
            run, res = P.execute(prog, inject_at=k)
            runs += 1
            if res["injected"]:
                judge(case, run, res, out, k)
    n = len(case["disp"])
    behs = [d["enter"]["b"] for d in case["disp"]] + [d["exit"]["b"] for d in case["disp"]]
    classes = []
    if n >= 2:
        classes.append("two-or-more-disposables")
    if any(d["enter"]["b"].endswith("raise") for d in case["disp"]):
        classes.append("enter-failure")
    if any(d["exit"]["b"].endswith("raise") for d in case["disp"]):
        classes.append("exit-failure")
    if any(b.startswith("suspend") for b in behs):
        classes.append("suspension")
    if case["body"] in ("raise", "base", "falsy"):
        classes.append("body-raises")
    if case["body"] == "cancel":
        classes.append("cancelled-body")
    out.classes = classes
    out.counts = {"executions": runs}
    out.nontrivial = (n >= 2 and any(b != "ok" for b in behs)) or (case["body"] != "return" and n >= 1)
    return out


def _disp_strategy():
    times = st.sampled_from([0.25, 0.5, 0.75, 1.5])
    beh = st.one_of(
        st.just({"b": "ok"}),
        st.just({"b": "raise"}),
        st.builds(lambda t: {"b": "suspend_ok", "t": t}, times),
        st.builds(lambda t: {"b": "suspend_raise", "t": t}, times),
        st.just({"b": "raise_base"}),
        st.builds(lambda t: {"b": "suspend_ok", "t": t, "absorb": True}, times),
    )
    # entering that ends with the disposable's OWN CancelledError (nobody cancelled the scope's task) is a failed enter
    # ... and entering that looks at the visible state (before and after its own work) / works inside a block of its own
    probing = st.sampled_from([{"b": "ok", "probe": True}, {"b": "suspend_ok", "t": 0.5, "probe": True}, {"b": "suspend_ok", "t": 0.25, "probe": True, "own_block": {"type": "A", "v": 77}},
                               {"b": "suspend_ok", "t": 0.75, "probe": True, "own_block": {"type": "B", "v": 78}}])  # fmt: skip
    mostly_ok = st.one_of(st.just({"b": "ok"}), st.just({"b": "ok"}), beh, beh, st.just({"b": "raise_cancelled"}), st.just({"b": "suspend_raise_cancelled", "t": 0.25}), probing, probing)
    exit_beh = st.one_of(beh, beh, beh, st.just({"b": "ok", "ret": True}), st.just({"b": "raise_cancelled"}))
    return st.builds(
        lambda e, y, x, a, tw: {"enter": e, "yields": y, "exit": x, "as": a, "twin": tw},
        # also a single state whose instance is FALSY, yielded directly (not wrapped in a list)
        mostly_ok, st.sampled_from([*YIELDS, {"type": "F", "v": 4}, {"type": "F", "v": 5}]), exit_beh, st.sampled_from(["list", "list", "iter", "gen"]), st.sampled_from([False, False, True]),
    )  # fmt: skip


def strategy(tier):
    return st.builds(
        lambda outer, state, disp, dobj, body, rival: {"outer": outer, "state": state, "disp": disp, "disp_obj": dobj, "body": body, "inject": None, "rival": rival,
                                                       "absorbed_cancel": body != "cancel" and len(state) == 1},
        st.booleans(),
        st.lists(P.sv_strategy(), max_size=2),
        st.lists(_disp_strategy(), min_size=0, max_size=4),
        st.booleans(),
        st.sampled_from(["return", "raise", "raise", "base", "falsy", "cancel", "cancel"]),
        # delay after which an unrelated scope (own disposables, another task) starts entering; None = no such scope
        st.sampled_from([None, None, None, 0.125, 0.25, 0.625]),
    )


def enumerate_cases(tier):
    if tier != "thorough":
        return None

    def gen():
        one = [{"enter": e, "yields": y, "exit": x} for e in BEH for y in YIELDS for x in BEH]
        for body in ("return", "raise"):
            yield {"outer": True, "state": [], "disp": [], "disp_obj": False, "body": body, "inject": None}
            for d in one:
                yield {"outer": True, "state": [], "disp": [d], "disp_obj": False, "body": body, "inject": None}
            # two disposables: second one's suspensions take longer / shorter so both completion orders occur
            for d1, d2 in itertools.product(one, repeat=2):
                for t2 in (0.25, 0.75):
                    d2b = {"enter": dict(d2["enter"], **({"t": t2} if "t" in d2["enter"] else {})), "yields": d2["yields"],
                           "exit": dict(d2["exit"], **({"t": t2} if "t" in d2["exit"] else {}))}  # fmt: skip
                    if t2 == 0.75 and "t" not in d2["enter"] and "t" not in d2["exit"]:
                        continue
                    yield {"outer": True, "state": [], "disp": [d1, d2b], "disp_obj": False, "body": body, "inject": None}
        for d in one:
            yield {"outer": True, "state": [], "disp": [d], "disp_obj": True, "body": "cancel", "inject": None}

    return gen()


def budget(tier):
    return {"examples": 1500, "shards": 1} if tier == "quick" else {"examples": 6000, "shards": 16}
