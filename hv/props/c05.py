"""C05 - State construction accepts exactly conforming values and stores them faithfully.

Case: {"cls": {"generic","targ","attrs":[{"name","term","default"}]}, "args": {name: value-AST | null}}
The class is rendered to PEP 695 source (kept in the sample for readability), exec-ed in a registered module,
and judged by the independent conformance oracle of hv.terms."""

from __future__ import annotations

from hypothesis import strategies as st

from haiway import MISSING
from hv import terms as TT
from hv.core import Outcome

PID = "C05"
LEVEL = "exploration"
TECHNIQUE = "grammar-based generation of annotation terms -> generated PEP 695 classes x conforming/broken values; differential against an independent structural conformance oracle"
RULE = (
    "cases are (generated State class with 1-4 attributes over annotation terms of depth<=4 incl. unions, literals, "
    "nested/recursive/generic states, Self, sequences, sets, mappings, fixed/variadic tuples, plain and parametrised "
    "aliases, class type parameters, defaults) x (argument set: conforming values in unusual but legal carriers, values "
    "broken at one generated position, omitted arguments); non-trivial = a container/union/alias/generic term with a "
    "conforming value that needs conversion, or a value broken below the top level; distinct = distinct class+arguments"
)
RULE += '; the class under test may be a derived class that inherits all generated attributes (a base-class instance in a Self position does not conform then)'
RULE += '; enumerated: a generic class forwarding its parameter to another generic State x every specialisation x boxes of every specialisation'
RULE += '; protocol conformance may differ between instances of one class; a derived class may re-declare the first attribute'
RULE += "; parametrised aliases whose parameter is named like the class's type parameter (enumerated); MISSING inside Any-typed containers (enumerated)"
RULE += '; two-member unions with None written first (enumerated)'
LEVEL_TEXT = (
    "Differential testing against an independent three-valued conformance relation over the harness's own term AST: "
    "construction must succeed iff every supplied-or-defaulted value conforms, and every stored attribute must be the "
    "value up to list->tuple / set->frozenset / mapping->read-only mapping conversion. Sampled; cases the statement "
    "leaves open are counted as unspecified and never alarmed."
)
LEVEL_NOTE = (
    "Trusted: the conformance oracle (hv.terms.conforms / stored_ok); generated classes are exec-ed source. Exception "
    "types are not judged (any Exception counts as 'raises')."
)
ASSUMPTIONS = [
    "int offered for float, str/bytes for Sequence, cross-type-equal literal members, non-tuple sequences for tuple[...], "
    "non-frozenset sets for frozenset[...], unspecialised generic instances and NaN are UNSPECIFIED (counted, not judged)",
    "non-runtime_checkable protocols are not generated",
]
REQUIRED_CLASSES = ["all-conform", "broken", "broken-nested", "mapping-nonempty", "alias_param", "generic-class", "default-used"]


class _Never:
    pass


def _renderable(v) -> bool:
    try:
        TT.render_value(v)
        return True
    except ValueError:
        return False
    except KeyError:
        return False


def _has_kind(v, kinds) -> bool:
    if v["v"] in kinds:
        return True
    for key in ("items",):
        for x in v.get(key, []):
            if isinstance(x, dict) and _has_kind(x, kinds):
                return True
            if isinstance(x, list) and any(_has_kind(y, kinds) for y in x):
                return True
    for key in ("val",):
        if isinstance(v.get(key), dict) and _has_kind(v[key], kinds):
            return True
    if isinstance(v.get("f"), dict) and any(_has_kind(x, kinds) for x in v["f"].values()):
        return True
    return False


_NAMESAKES: list = []
_DECOY_PLAIN = """from haiway import State, MISSING, Missing
class Inner(State):
    decoy: str = "decoy"
class InnerSub(Inner):
    pass
class Node(State):
    decoy: int = 0
class GBox[T](State):
    decoy: T | Missing = MISSING
class C0(State):
    decoy: bytes = b"decoy"
"""
_DECOY_GENERIC = _DECOY_PLAIN.replace("class C0(State):", "class C0[T](State):")


def run_case(case) -> Outcome:
    out = Outcome()
    cls = case["cls"]
    src = TT.class_source(cls)
    kinds = set()
    for a in cls["attrs"]:
        TT.term_kinds(a["term"], kinds)
    try:
        if cls.get("namesake"):
            # unrelated State classes with the SAME names (same module name and qualified name, as after a reload, a
            # re-run notebook cell or a class factory) exist, are specialised alike and stay alive: classes are objects,
            # nothing may be looked up by name
            import hashlib

            modname = "hv_ns_" + hashlib.sha1(src.encode()).hexdigest()[:10]
            decoy = TT.define_named(_DECOY_GENERIC if cls["generic"] else _DECOY_PLAIN, modname)
            keep = [decoy, decoy.C0]
            if cls["generic"] and cls.get("targ") is not None:
                keep.append(decoy.C0[TT._targ_type(cls["targ"])])
                sibd = TT.TARG_SIBLING.get(cls["targ"])
                if sibd is not None:
                    keep.append(decoy.C0[TT._targ_type(sibd)])
            _NAMESAKES.append(keep)
            del _NAMESAKES[:-8]
            mod = TT.define_named(src, modname)
        else:
            mod = TT.define(src)
    except Exception as exc:  # noqa: BLE001
        out.violate("define", f"C05.define/class-definition-raised/{type(exc).__name__}", f"{exc!r}\n{src}")
        out.sample = {"src": src, "args": case["args"]}
        return out
    C = mod.C0
    base = None
    if cls.get("derived") and not cls["generic"]:
        base, C = mod.C0, mod.C0D
    sibling = None
    if cls["generic"] and cls.get("targ") is not None:
        try:
            # another specialisation of the same class is created first and kept alive: specialisations must not be
            # confused with each other (e.g. by a cache keyed on rendered names)
            sib = TT.TARG_SIBLING.get(cls["targ"])
            if sib is not None:
                sibling = C[TT._targ_type(sib)]
            C = C[TT._targ_type(cls["targ"])]
            if sibling is not None and sibling is C:
                out.violate("define", "C05.define/distinct-specialisations-are-the-same-class", f"{cls['targ']} vs {sib}\n{src}")
        except Exception as exc:  # noqa: BLE001
            out.violate("define", f"C05.define/specialisation-raised/{type(exc).__name__}", f"{exc!r}\n{src}")
            return out
    env = TT.Env(cls=C, targ=cls.get("targ"), base=base)
    kwargs = {}
    effective = {}
    why: list = []
    default_used = False
    for a in cls["attrs"]:
        name = a["name"]
        supplied = case["args"].get(name)
        obj = MISSING
        if supplied is not None:
            try:
                obj = TT.build(supplied, env)
            except Exception:  # noqa: BLE001
                if not _has_kind(supplied, {"selfinst", "baseinst"}):
                    raise
                # an inner instance of the class under test could not be built (e.g. it relies on a default whose
                # conformance is unspecified); the same construction is judged on its own as a top-level case
                out.unspecified.append("nested-self-instance-not-constructible")
                out.sample = {"src": src, "args": case["args"]}
                return out
            kwargs[name] = obj
        if obj is MISSING:
            if a.get("default") is not None:
                obj = TT.build(a["default"], TT.Env(cls=_Never, targ=cls.get("targ")))
                default_used = True
        effective[name] = obj
    conf = {a["name"]: TT.conforms(a["term"], effective[a["name"]], env, why) for a in cls["attrs"]}
    expect = TT.and3(conf.values())
    inst = None
    raised = None
    try:
        inst = C(**kwargs)
    except Exception as exc:  # noqa: BLE001 - "raises" is the documented rejection
        raised = exc
    detail = lambda: f"{src}args={case['args']} conforms={conf} raised={raised!r}"  # noqa: E731
    if expect is True and raised is not None:
        bad = [n for n in conf]
        tk = sorted(k for k in kinds if k in ("map", "alias_param", "alias", "generic", "self", "tvar", "set", "frozenset", "union", "tuple_fixed", "tuple_var", "seq", "protocol", "callable", "literal"))
        out.violate(
            "accept",
            f"C05.accept/conforming-rejected/{_blame(cls, conf, effective, env, C)}",
            detail(),
        )
        del bad, tk
    elif expect is False and raised is None:
        out.violate("reject", f"C05.reject/nonconforming-accepted/{_blame_reject(cls, conf)}", detail())
    elif expect is None:
        out.unspecified.extend(why or ["unspecified"])
    if inst is not None:
        for a in cls["attrs"]:
            n = a["name"]
            if conf[n] is not True:
                continue
            try:
                stored = getattr(inst, n)
            except AttributeError:
                out.violate("store", f"C05.store/attribute-missing/{a['term']['t']}", detail())
                continue
            ok = TT.stored_ok(a["term"], effective[n], stored, env)
            if ok is False:
                out.violate(
                    "store",
                    f"C05.store/not-faithful/{_store_kind(a['term'])}",
                    f"{n}: supplied {effective[n]!r} stored {stored!r}\n{detail()}",
                )
    # classification
    classes = []
    broken_depth = case.get("broken_depth")
    if expect is True:
        classes.append("all-conform")
    if expect is False:
        classes.append("broken")
        if broken_depth and broken_depth >= 1:
            classes.append("broken-nested")
    if default_used:
        classes.append("default-used")
    if cls["generic"]:
        classes.append("generic-class")
    if src.startswith("from __future__"):
        classes.append("postponed-annotations")
    if cls.get("namesake"):
        classes.append("same-named-unrelated-classes")
    if base is not None:
        classes.append("derived-class-inheriting-the-attributes")
        if cls.get("derived") == "redeclare":
            classes.append("derived-class-redeclares-an-attribute")
        if any(v is not None and _has_kind(v, {"baseinst"}) for v in case["args"].values()):
            classes.append("base-instance-where-Self-is-expected")
    for kname in ("alias_param", "alias", "self", "union", "literal", "generic", "tuple_fixed", "set", "protocol"):
        if kname in kinds:
            classes.append(kname)
    nonempty_map = any(
        isinstance(v, dict) and _has_nonempty_mapping(v) for v in case["args"].values() if v is not None
    )
    if "map" in kinds and nonempty_map:
        classes.append("mapping-nonempty")
    conv = any(v is not None and _has_kind(v, {"list", "deque", "range", "set", "keysview", "dict", "odict"}) for v in case["args"].values())
    composite = bool(kinds & {"seq", "tuple_var", "tuple_fixed", "set", "frozenset", "map", "union", "optional", "alias", "alias_param", "generic", "tvar"})
    out.nontrivial = composite and ((expect is True and conv) or (expect is False and bool(broken_depth)))
    out.classes = classes
    out.sample = {"src": src, "targ": cls.get("targ"), "args": case["args"], "expect": expect}
    return out


def _has_nonempty_mapping(v) -> bool:
    if v["v"] in ("dict", "odict", "mproxy") and v["items"]:
        return True
    for x in v.get("items", []):
        if isinstance(x, dict) and _has_nonempty_mapping(x):
            return True
        if isinstance(x, list) and any(_has_nonempty_mapping(y) for y in x):
            return True
    if isinstance(v.get("val"), dict) and _has_nonempty_mapping(v["val"]):
        return True
    if isinstance(v.get("f"), dict) and any(_has_nonempty_mapping(x) for x in v["f"].values()):
        return True
    return False


def _store_kind(t):
    k = t["t"]
    if k in ("alias", "optional"):
        return _store_kind(t["of"])
    if k == "alias_param":
        return "alias_param:" + _store_kind(t["body"])
    return k


def _blame(cls, conf, effective, env, C):
    """which attribute kind is wrongly rejected: try each attribute alone through updated-like single validation"""
    kinds = []
    for a in cls["attrs"]:
        attr = C.__ATTRIBUTES__.get(a["name"]) if hasattr(C, "__ATTRIBUTES__") else None
        if attr is None:
            continue
        try:
            attr.validator(effective[a["name"]])
        except Exception:  # noqa: BLE001
            kinds.append(_reject_path(a["term"], effective[a["name"]], env))
    return "+".join(sorted(set(kinds))) or "unknown"


def _reject_path(t, v, env):
    """outermost->innermost kinds along the conforming value's first container, for a stable signature"""
    k = t["t"]
    if k == "alias":
        return "alias>" + _reject_path(t["of"], v, env)
    if k == "alias_param":
        return "alias_param>" + _reject_path(t["body"], v, env.with_var(t["arg"]))
    if k == "optional":
        return "optional>" + _reject_path(t["of"], v, env) if v is not None else "optional"
    return k


def _blame_reject(cls, conf):
    bad = sorted({_store_kind(a["term"]) for a in cls["attrs"] if conf[a["name"]] is False})
    return "+".join(bad) or "unknown"


# ------------------------------------------------------------------------------------------ generation
def gen_class(draw, broken_defaults=True, min_attrs=1):
    generic = draw(st.sampled_from([False, False, True]))
    targ = draw(st.sampled_from([*TT.TARGS, None])) if generic else None
    allow_self = draw(st.sampled_from([False, False, True]))
    n = draw(st.integers(min_attrs, 4))
    attrs = []
    dummy_env = TT.Env(cls=_Never, targ=targ)
    ctx0 = {"targ": targ, "self_impossible": True}
    for i in range(n):
        term = draw(TT.term_strategy(generic, allow_self))
        default = None
        default_ok = True
        roll = draw(st.integers(0, 19))
        if roll < 6:
            d = TT.gen_value(draw, term, ctx0)
            if d is not None and _renderable(d):
                default = d
        elif roll == 6 and broken_defaults:
            d = TT.definitely_wrong(draw, term, ctx0, dummy_env, top=False)
            if d is not None and _renderable(d) and d["v"] != "missing":
                default = d
                default_ok = False
        attrs.append({"name": f"a{i}", "term": term, "default": default, "default_ok": default_ok})
    future = (not generic) and draw(st.integers(0, 5)) == 0  # module with `from __future__ import annotations`
    namesake = draw(st.integers(0, 5)) == 0  # same-named unrelated State classes exist (see run_case)
    # the class under test is a derived class inheriting all these attributes (more often when one of them is Self-typed)
    derived = (not generic) and not namesake and draw(st.integers(0, 2 if allow_self else 7)) == 0
    if derived and draw(st.booleans()):
        derived = "redeclare"  # ... and re-declares the first attribute (the base class annotates it differently)
    alias_var = "T" if draw(st.integers(0, 3)) == 0 else None  # aliases spell their parameter like the class does
    return {"generic": generic, "targ": targ, "attrs": attrs, "future": future, "namesake": namesake, "derived": derived, "alias_var": alias_var}, allow_self


def gen_args(draw, cls, mode, omit_required=True):
    """mode: good | one-broken | random. Returns (args, broken_depth)"""
    attrs, targ = cls["attrs"], cls["targ"]
    ctx = {"targ": targ, "self_attrs": attrs, "derived": bool(cls.get("derived"))}
    n = len(attrs)
    victim = draw(st.integers(0, n - 1))
    args = {}
    broken_depth = None
    for i, a in enumerate(attrs):
        choice = "good"
        if mode == "one-broken" and i == victim:
            choice = "broken"
        elif mode == "random":
            choice = draw(st.sampled_from(["good", "good", "broken", "omit"]))
        elif a["default"] is not None and draw(st.integers(0, 2)) == 0:
            choice = "omit"
        elif omit_required and draw(st.integers(0, 11)) == 0:
            choice = "omit"
        if choice == "good":
            args[a["name"]] = TT.gen_value(draw, a["term"], ctx)
        elif choice == "broken":
            r = TT.gen_broken(draw, a["term"], ctx, TT.Env(cls=_Never, targ=targ))
            if r is None:
                args[a["name"]] = TT.gen_value(draw, a["term"], ctx)
            else:
                args[a["name"]] = r[0]
                broken_depth = max(broken_depth or 0, r[1])
        else:
            args[a["name"]] = None
    return args, broken_depth


def strategy(tier):
    @st.composite
    def cases(draw):
        cls, _ = gen_class(draw)
        mode = draw(st.sampled_from(["good", "good", "good", "one-broken", "one-broken", "random"]))
        args, broken_depth = gen_args(draw, cls, mode)
        for a in cls["attrs"]:
            a.pop("default_ok", None)
        return {"cls": cls, "args": args, "broken_depth": broken_depth}

    return cases()


VALUE_POOL = [
    *TT.WRONG_POOL,
    TT.V("int", x=0), TT.V("int", x=1), TT.V("bool", x=False), TT.V("float", x=0.0), TT.V("str", x=""), TT.V("str", x="x"), TT.V("str", x="a"),
    TT.V("bytes", x=""), TT.V("uuid", x=1), TT.V("date", x=1), TT.V("datetime", x=1), TT.V("time", x=1), TT.V("timedelta", x=1),
    TT.V("path", x="a"), TT.V("enum", e="Size", m="S"), TT.V("callable", x="len"), TT.V("state", s="InnerSub", f={"v": TT.V("int", x=1)}),
    TT.V("state", s="Node", f={"val": TT.V("int", x=1)}), TT.V("gbox", arg="int", val=TT.V("int", x=1), items=[]),
    TT.V("gbox", arg=None, val=TT.V("int", x=1), items=[]), TT.V("tuple", items=[]), TT.V("tuple", items=[TT.V("int", x=1), TT.V("str", x="a")]),
    TT.V("list", items=[TT.V("int", x=1), TT.V("int", x=2)]), TT.V("frozenset", items=[TT.V("str", x="x")]), TT.V("set", items=[]),
    TT.V("dict", items=[[TT.V("str", x="x"), TT.V("int", x=1)]]), TT.V("dict", items=[[TT.V("int", x=1), TT.V("str", x="x")]]),
    TT.V("mproxy", items=[[TT.V("str", x="ab"), TT.V("str", x="cd")]]), TT.V("range", n=2), TT.V("deque", items=[TT.V("str", x="q")]),
    TT.V("list", items=[TT.V("enum", e="Color", m="RED")]), TT.V("tuple", items=[TT.V("str", x="a"), TT.V("str", x="b")]),
    TT.V("dict", items=[[TT.V("str", x="k"), TT.V("str", x="v")]]), TT.V("dict", items=[[TT.V("str", x="k"), TT.V("enum", e="Color", m="RED")]]),
    TT.V("set", items=[TT.V("enum", e="Color", m="GREEN")]), TT.V("list", items=[TT.V("int", x=1), TT.V("none")]),
]  # fmt: skip


def matrix_terms(tier):
    leaves = TT.leaf_terms(False, False)
    uniq = []
    for t in leaves:
        if t not in uniq:
            uniq.append(t)
    yield from uniq
    for t in uniq:
        yield TT.T("seq", of=t)
        yield TT.T("tuple_var", of=t)
        yield TT.T("optional", of=t)
        yield TT.T("alias", of=t)
        yield TT.T("tuple_fixed", items=[t, TT.T("str")])
        yield TT.T("alias_param", body=TT.T("seq", of=TT.T("var")), arg=t)
        for k in TT.KEY_TERMS:
            yield TT.T("map", k=k, v=t)
    for h in TT.HASHABLE_LEAVES:
        yield TT.T("set", of=h)
        yield TT.T("frozenset", of=h)
    # unions of equally shaped containers where only a LATER alternative can accept the value and the earlier one fails
    # deep inside (through a nested union / optional): the failure of an alternative must never escape the union
    inner_fail = [TT.T("optional", of=TT.T("int")), TT.T("union", alts=[TT.T("int"), TT.T("none")]), TT.T("alias", of=TT.T("union", alts=[TT.T("int"), TT.T("float")]))]
    for inner in inner_fail:
        for later in (TT.T("str"), TT.T("enum", e="Color")):
            yield TT.T("union", alts=[TT.T("seq", of=inner), TT.T("seq", of=later)])
            yield TT.T("union", alts=[TT.T("tuple_var", of=inner), TT.T("tuple_var", of=later)])
            yield TT.T("union", alts=[TT.T("map", k=TT.T("str"), v=inner), TT.T("map", k=TT.T("str"), v=later)])
            yield TT.T("union", alts=[TT.T("optional", of=TT.T("seq", of=inner)), TT.T("seq", of=later)])
        yield TT.T("union", alts=[TT.T("set", of=TT.T("union", alts=[TT.T("int"), TT.T("str")])), TT.T("set", of=TT.T("enum", e="Color"))])
    if tier == "thorough":
        for a in uniq:
            for b in uniq:
                if a != b:
                    yield TT.T("union", alts=[a, b])


def enumerate_cases(tier):
    """the (term x value) matrix: every single-attribute class over the term pool against every pool value"""
    for t in matrix_terms(tier):
        cls = {"generic": False, "targ": None, "attrs": [{"name": "a0", "term": t, "default": None}]}
        for v in VALUE_POOL:
            if v["v"] == "missing":
                continue
            yield {"cls": cls, "args": {"a0": v}, "broken_depth": 1}
    # conformance to a runtime-checkable protocol is decided per INSTANCE: a conforming instance followed by a non-conforming
    # one of the same class (and the other way round), through one validator
    pr = TT.T("protocol")
    yes, no = TT.V("maybeimpl", ok=True), TT.V("maybeimpl", ok=False)
    for t, mk in (
        (TT.T("seq", of=pr), lambda a, b: TT.V("list", items=[a, b])),
        (TT.T("tuple_var", of=pr), lambda a, b: TT.V("tuple", items=[a, b])),
        (TT.T("tuple_fixed", items=[pr, pr]), lambda a, b: TT.V("tuple", items=[a, b])),
        (TT.T("map", k=TT.T("str"), v=pr), lambda a, b: TT.V("dict", items=[[TT.V("str", x="a"), a], [TT.V("str", x="b"), b]])),
        (TT.T("seq", of=TT.T("union", alts=[TT.T("int"), pr])), lambda a, b: TT.V("list", items=[a, TT.V("int", x=1), b])),
    ):
        cls = {"generic": False, "targ": None, "attrs": [{"name": "a0", "term": t, "default": None}]}
        for a, b in ((yes, no), (no, yes), (yes, yes), (no, no)):
            yield {"cls": cls, "args": {"a0": mk(a, b)}, "broken_depth": 1}
    # a GENERIC class that forwards its own parameter to another generic State (directly and inside containers), every
    # specialisation of it against every pool value plus boxes of every specialisation: `GBox[T]` means GBox[<the argument>]
    boxes = [TT.V("gbox", arg=a, val=TT.gen_plain_value(a), items=[]) for a in TT.TARGS if TT.gen_plain_value(a) is not None]
    fwd = TT.T("generic", arg="T")
    for t in (fwd, TT.T("seq", of=fwd), TT.T("optional", of=fwd), TT.T("map", k=TT.T("str"), v=fwd), TT.T("tuple_fixed", items=[fwd, TT.T("str")])):
        for targ in TT.TARGS:
            cls = {"generic": True, "targ": targ, "attrs": [{"name": "a0", "term": t, "default": None}]}
            for b in boxes:
                v = b
                if t["t"] == "seq":
                    v = TT.V("list", items=[b])
                elif t["t"] == "map":
                    v = TT.V("dict", items=[[TT.V("str", x="k"), b]])
                elif t["t"] == "tuple_fixed":
                    v = TT.V("tuple", items=[b, TT.V("str", x="s")])
                yield {"cls": cls, "args": {"a0": v}, "broken_depth": 1}
    yield from _alias_namesake_cases()
    # two-member unions with None written FIRST (`None | int`, `Union[None, Sequence[str]]`), bare and inside containers
    none = TT.T("none")
    for leaf in (TT.T("int"), TT.T("str"), TT.T("seq", of=TT.T("str")), TT.T("bool")):
        for form in ("pipe", "typing"):
            u = TT.T("union", alts=[none, leaf], form=form)
            for t in (u, TT.T("seq", of=u), TT.T("alias", of=u)):
                cls = {"generic": False, "targ": None, "attrs": [{"name": "a0", "term": t, "default": None}]}
                for v in VALUE_POOL:
                    if v["v"] == "missing":
                        continue
                    yield {"cls": cls, "args": {"a0": TT.V("list", items=[v, TT.V("none")]) if t["t"] == "seq" else v}, "broken_depth": 1}
    # an attribute that admits Missing, has no class-level default and is omitted / given MISSING: stored as MISSING and readable
    for t in (TT.T("union", alts=[TT.T("int"), TT.T("missing")]), TT.T("missing"), TT.T("union", alts=[TT.T("missing"), TT.T("seq", of=TT.T("str"))]), TT.T("any")):
        for given in (TT.V("missing"), None):
            if given is None and t["t"] == "any":
                continue
            yield {"cls": {"generic": False, "targ": None, "attrs": [{"name": "a0", "term": t, "default": None}, {"name": "a1", "term": TT.T("int"), "default": TT.V("int", x=1)}]},
                   "args": {"a0": given, "a1": None}, "broken_depth": 1}  # fmt: skip
    # MISSING is a value like any other wherever the annotation admits anything (Any, an unspecialised type variable): inside
    # containers it is kept, entry by entry
    ms, one = TT.V("missing"), TT.V("int", x=1)
    for generic, inner in ((False, TT.T("any")), (True, TT.T("tvar"))):
        for t, v in (
            (TT.T("map", k=TT.T("str"), v=inner), TT.V("dict", items=[[TT.V("str", x="a"), ms], [TT.V("str", x="b"), one]])),
            (TT.T("map", k=TT.T("str"), v=inner), TT.V("dict", items=[[TT.V("str", x="a"), ms]])),
            (TT.T("seq", of=inner), TT.V("list", items=[ms, one, ms])),
            (TT.T("tuple_var", of=inner), TT.V("tuple", items=[one, ms])),
            (TT.T("tuple_fixed", items=[inner, TT.T("int")]), TT.V("tuple", items=[ms, one])),
            (TT.T("map", k=TT.T("str"), v=TT.T("seq", of=inner)), TT.V("dict", items=[[TT.V("str", x="a"), TT.V("list", items=[ms])]])),
        ):
            yield {"cls": {"generic": generic, "targ": None, "attrs": [{"name": "a0", "term": t, "default": None}]}, "args": {"a0": v}, "broken_depth": 1}


def _alias_namesake_cases():
    """a parametrised alias whose parameter is NAMED like the class's type parameter, used by an attribute declared
    before / after the attribute typed by the class parameter: the alias's binding is the alias's own business"""
    str_, int_ = TT.T("str"), TT.T("int")
    for body in (TT.T("seq", of=TT.T("var")), TT.T("var"), TT.T("map", k=str_, v=TT.T("var"))):
        for alias_arg in (str_, int_, TT.T("any")):
            for targ in TT.TARGS:
                for order in ("alias-first", "alias-last"):
                    al = {"name": "a0", "term": TT.T("alias_param", body=body, arg=alias_arg), "default": None}
                    tv = {"name": "a1", "term": TT.T("tvar"), "default": None}
                    if order == "alias-last":
                        al, tv = {**al, "name": "a1"}, {**tv, "name": "a0"}
                    attrs = sorted([al, tv], key=lambda a: a["name"])
                    cls = {"generic": True, "targ": targ, "attrs": attrs, "alias_var": "T"}
                    for v in VALUE_POOL:
                        if v["v"] == "missing":
                            continue
                        yield {"cls": cls, "args": {al["name"]: _ALIAS_GOOD[(body["t"], alias_arg["t"])], tv["name"]: v}, "broken_depth": 1}


def _alias_good():
    out = {}
    for bt in ("seq", "var", "map"):
        for at, val in (("str", TT.V("str", x="s")), ("int", TT.V("int", x=3)), ("any", TT.V("str", x="s"))):
            out[bt, at] = {"seq": TT.V("list", items=[val]), "var": val, "map": TT.V("dict", items=[[TT.V("str", x="k"), val]])}[bt]
    return out


_ALIAS_GOOD = _alias_good()


EXHAUSTIVE_MEANS = "the (annotation term x value) matrix: every leaf term and every one-level wrapper of it (thorough: also every union of two leaves) against every value of a fixed pool of ~50 values"


def budget(tier):
    return {"examples": 2500, "shards": 1} if tier == "quick" else {"examples": 25000, "shards": 16}
