"""C01 - scope state lookup follows lexical nesting (innermost supplier wins).

Case: {"body": [Op]} - a single-task scope program (hv.progs) with probes at every kind of position; each probe
performs a generated sequence of lookups (type, with explicit default?)."""

from __future__ import annotations

from hypothesis import strategies as st

from hv import progs as P
from hv.core import Outcome

PID = "C01"
LEVEL = "exploration"
TECHNIQUE = "generated nested scope programs executed against an independent environment-stack reference model (differential)"
RULE = (
    "cases are trees (depth<=5, <=12 blocks) of async scopes (with 0-3 disposables yielding none/one/several states), "
    "sync scopes and ctx.updated blocks, each supplying 0-4 values of a 9-type family (defaultable, required-attribute, required union-typed attribute, falsy instances, "
    "subclass, generic specialisations), with probes before / inside / between siblings / after blocks; each probe runs a "
    "generated sequence of lookups with and without explicit default; non-trivial = some lookup decided by shadowing, by "
    "a non-innermost frame, by a disposable's state, or by the default/MissingState path after an earlier lookup of the "
    "same type; distinct = distinct program"
)
RULE += '; the family has distinct types that share one qualified name (factory-made classes, G[Sequence[int]] / G[Sequence[str]]) and instances whose Missing-able attribute is MISSING'
LEVEL_TEXT = (
    "Differential against a reference environment stack that shares only the program AST with the interpreter: every "
    "lookup result (identity of the returned instance, default, default-constructed value, MissingState, "
    "MissingContext) is compared. Sampled over generated programs."
)
LEVEL_NOTE = "Trusted: the reference model (frames = values supplied by one block incl. its disposables' yields); single task, no faults."
ASSUMPTIONS = [
    "which of several same-type values supplied by ONE block wins is not specified: any of them is accepted - but the winner must not depend on how long the block's disposables take to enter (metamorphic re-run with three latency patterns)",
    "bare generic G without arguments: default-constructibility is unspecified (either answer accepted)",
]
REQUIRED_CLASSES = ["same-type-from-several-disposables", "prepared-scope", "shadowing", "outer-frame-decides", "disposable-state-decides", "default-after-earlier-lookup", "missing-state", "outside-any-scope"]


def model(prog):
    """expected lookup results per probe path: list of allowed answers"""
    expect = {}

    def frame_of(op, path):
        fr = {}
        for i, sv in enumerate(op.get("state", [])):
            lbl = ("shared", sv["type"], sv["v"], sv["share"]) if sv.get("share") is not None else (path, "s", i)
            fr.setdefault(sv["type"], []).append(lbl)
        for j, d in enumerate(op.get("disp") or []):
            y = d.get("yields")
            ys = [] if y is None else ([y] if isinstance(y, dict) else y)
            for i, sv in enumerate(ys):
                fr.setdefault(sv["type"], []).append((path, "d", j, i))
        return fr

    def walk(ops, path, stack, depth):
        for i, op in enumerate(ops):
            p = path + (i,)
            if op["k"] in ("scope", "updated"):
                walk(op["body"], p, stack + [frame_of(op, p)], depth + 1)
            elif op["k"] == "probe":
                res = []
                for name, with_default in op["lookups"]:
                    if depth == 0:
                        res.append({"kind": "MissingContext"})
                        continue
                    hit = None
                    for level in range(len(stack) - 1, -1, -1):
                        if name in stack[level]:
                            hit = (level, stack[level][name])
                            break
                    if hit is not None:
                        holders = [lv for lv in range(len(stack)) if name in stack[lv]]
                        res.append({"kind": "supplied", "labels": hit[1], "level": hit[0], "depth": len(stack), "holders": len(holders),
                                    "from_disp": all(lbl[1] == "d" for lbl in hit[1])})
                    elif with_default:
                        res.append({"kind": "default"})
                    elif name in P.DEFAULTABLE:
                        res.append({"kind": "constructed"})
                    elif name == "G":
                        res.append({"kind": "unspecified"})
                    else:
                        res.append({"kind": "MissingState"})
                expect[p] = res

    walk(prog["body"], (), [], 0)
    return expect


def _disp_types(d):
    y = d.get("yields")
    ys = [] if y is None else ([y] if isinstance(y, dict) else y)
    return {sv["type"] for sv in ys}


def _duplicates_across_disposables(ops) -> bool:
    for _, op in P.walk_blocks(ops):
        ds = op.get("disp") or []
        seen: set = set()
        for d in ds:
            t = _disp_types(d)
            if seen & t:
                return True
            seen |= t
    return False


def _with_latencies(case, variant):
    import copy

    c = copy.deepcopy(case)
    for _, op in P.walk_blocks(c["body"]):
        ds = op.get("disp") or []
        for j, d in enumerate(ds):
            if variant == "instant":
                d["enter"] = {"b": "ok"}
            elif variant == "earlier-slower":
                d["enter"] = {"b": "suspend_ok", "t": 0.25 * (len(ds) - j)}
            else:
                d["enter"] = {"b": "suspend_ok", "t": 0.25 * (j + 1)}
    return c


def run_case(case) -> Outcome:
    out = Outcome()
    run, res = P.execute(case)
    if res["outcome"] != "return":
        out.violate("run", f"C01.run/program-did-not-finish/{res['outcome']}", f"{res['exc']!r}")
        return out
    expect = model(case)
    classes = set()
    probes = {tuple(e["path"]): e for e in run.log if e["ev"] == "probe"}
    for path, exp in expect.items():
        got = probes.get(path)
        if got is None:
            out.violate("run", "C01.run/probe-not-reached", str(path))
            continue
        seen_types = set()
        for (name, with_default, r), e in zip(got["lookups"], exp):
            kind = e["kind"]
            if kind == "MissingContext":
                classes.add("outside-any-scope")
                if r[0] != "MissingContext":
                    out.violate("outside", "C01.outside/no-missing-context", f"{name} -> {r}")
            elif kind == "supplied":
                if e["holders"] >= 2:
                    classes.add("shadowing")
                if e["level"] < e["depth"] - 1:
                    classes.add("outer-frame-decides")
                if e["from_disp"]:
                    classes.add("disposable-state-decides")
                if r[0] != "val" or tuple(r[1]) not in [tuple(x) for x in e["labels"]]:
                    what = "wrong-instance" if r[0] == "val" else r[0]
                    out.violate(
                        "innermost",
                        f"C01.innermost/{what}/{'default' if with_default else 'nodefault'}",
                        f"lookup {name} at {path}: got {r}, expected one of {e['labels']}",
                    )
            elif kind == "default":
                if name in seen_types:
                    classes.add("default-after-earlier-lookup")
                if r[0] != "val" or tuple(r[1]) != ("sentinel", name):
                    after = "after-earlier-lookup" if name in seen_types else "first-lookup"
                    out.violate("default", f"C01.default/explicit-default-not-returned/{after}", f"lookup {name} at {path}: got {r}")
            elif kind == "constructed":
                ok = r[0] == "val" and r[1][0] == "unknown" and r[1][1] == name and r[1][2] == repr(P.FAMILY[name]())
                if not ok:
                    out.violate("constructed", "C01.constructed/not-a-default-constructed-instance", f"lookup {name} at {path}: got {r}")
            elif kind == "MissingState":
                classes.add("missing-state")
                if name in seen_types:
                    classes.add("default-after-earlier-lookup")
                if r[0] != "MissingState":
                    out.violate("missing", "C01.missing/no-missing-state-error", f"lookup {name} at {path}: got {r}")
            else:
                out.unspecified.append("bare-generic-default-construction")
            seen_types.add(name)
    if any(e["ev"] == "prepared" for e in run.log):
        classes.add("prepared-scope")
    shared_uses = [tuple(sorted(sv.items())) for _, op in P.walk_blocks(case["body"]) for sv in op.get("state", []) if sv.get("share") is not None]
    if len(shared_uses) != len(set(shared_uses)):
        classes.add("one-instance-supplied-by-several-blocks")
    # which of several same-type values of ONE block wins is not specified - but it has to be a function of the program,
    # not of how long each disposable takes to enter: re-run with other enter latencies and compare the winners
    if not out.violations and _duplicates_across_disposables(case["body"]):
        classes.add("same-type-from-several-disposables")
        winners = []
        for variant in ("instant", "earlier-slower", "later-slower"):
            run_v, res_v = P.execute(_with_latencies(case, variant))
            if res_v["outcome"] != "return":
                out.violate("run", f"C01.run/program-did-not-finish/{res_v['outcome']}", f"latency variant {variant}: {res_v['exc']!r}")
                break
            winners.append({tuple(e["path"]): [tuple(r[1]) if r[0] == "val" else r[0] for _, _, r in e["lookups"]] for e in run_v.log if e["ev"] == "probe"})
        if len(winners) == 3 and not (winners[0] == winners[1] == winners[2]):
            diff = [(p_, winners[0][p_], winners[1].get(p_), winners[2].get(p_)) for p_ in winners[0] if not (winners[0][p_] == winners[1].get(p_) == winners[2].get(p_))]
            out.violate("innermost", "C01.innermost/winner-depends-on-enter-completion-order", f"(probe, instant, earlier-slower, later-slower): {diff[:3]}")
    out.classes = sorted(classes)
    out.nontrivial = bool(classes & {"shadowing", "outer-frame-decides", "disposable-state-decides", "default-after-earlier-lookup"})
    return out


def strategy(tier):
    lookups = st.lists(
        st.tuples(st.sampled_from(list(P.FAMILY)), st.booleans()).map(list), min_size=1, max_size=4
    )
    probe = st.builds(lambda lk: {"k": "probe", "lookups": lk}, lookups)
    # some values are ONE shared instance (a constant such as a default configuration) supplied by several blocks
    shared_sv = st.builds(lambda t, v: {"type": t, "v": v, "share": 0}, st.sampled_from(["A", "B", "R"]), st.sampled_from([1, 2]))
    svs = st.lists(st.one_of(P.sv_strategy(), P.sv_strategy(), P.sv_strategy(), shared_sv), min_size=0, max_size=4)
    names = st.sampled_from(["s", "outer", "inner", "x"])

    def blocks(children):
        body = st.lists(st.one_of(probe, children), min_size=0, max_size=4).map(
            lambda ops: [{"k": "probe", "lookups": [["A", False], ["A", True]]}] if not ops else ops
        )
        # prep=k: the scope OBJECT is constructed when the k-th enclosing block's body starts and entered later, at its
        # position (a scope prepared by a factory / decorator); lookups must follow the nesting at ENTRY
        prep = st.sampled_from([0, 0, 0, 1, 2, 3])
        a_scope = st.builds(
            lambda n, s, d, dobj, b, pr: {"k": "scope", "mode": "async", "name": n, "state": s, "disp": d, "disp_obj": dobj, "body": b, "prep": pr},
            names, svs, st.one_of(st.none(), st.lists(P.simple_disp_strategy(), min_size=0, max_size=3)), st.booleans(), body, prep,
        )  # fmt: skip
        s_scope = st.builds(lambda n, s, b, pr: {"k": "scope", "mode": "sync", "name": n, "state": s, "disp": None, "body": b, "prep": pr}, names, svs, body, prep)
        upd = st.builds(lambda s, b: {"k": "updated", "state": s, "body": b}, svs, body)
        return st.one_of(a_scope, s_scope, upd)

    block = st.recursive(blocks(probe), blocks, max_leaves=12)
    general = st.builds(
        lambda pre, bs, post: {"body": ([pre] if pre else []) + [x for b in bs for x in (b[0], b[1])] + [post]},
        st.one_of(st.none(), probe),
        st.lists(st.tuples(block, probe), min_size=1, max_size=3),
        probe,
    )

    @st.composite
    def deep_chain(draw):
        """one chain of 6..14 nested blocks, most of them supplying a value of one of a few types (so that the same type
        is supplied at several levels), probed at the bottom and after every level while unwinding"""
        depth = draw(st.integers(6, 14))
        types = draw(st.lists(st.sampled_from(["A", "B", "R", "A2", "F", "U", "T1", "T2", "GQ1", "GQ2", "M"]), min_size=1, max_size=3, unique=True))
        all_probe = {"k": "probe", "lookups": [[t, False] for t in types] + [[types[0], True]]}
        node = [dict(all_probe)]
        for level in range(depth, 0, -1):
            supplies = [] if draw(st.integers(0, 5)) == 0 else [{"type": draw(st.sampled_from(types)), "v": (level % 9) + 1}]
            if supplies and supplies[0]["type"] == "M" and draw(st.booleans()):
                supplies[0]["v"] = None  # attribute left MISSING
            kind = draw(st.sampled_from(["async", "sync", "updated", "updated"])) if level > 1 else "async"
            if kind == "updated":
                blk = {"k": "updated", "state": supplies, "body": node}
            else:
                blk = {"k": "scope", "mode": kind, "name": f"l{level}", "state": supplies, "disp": None, "disp_obj": False, "body": node, "prep": 0}
            node = [blk, dict(all_probe)]
        return {"body": [*node]}

    @st.composite
    def reuse(draw):
        """sibling blocks supplying DIFFERENT values of the same types, each containing a block that supplies the SAME
        shared instance (a constant): whatever was computed for the first sibling must not be reused for the second"""
        outer_types = draw(st.lists(st.sampled_from(["A", "B", "R", "F", "U"]), min_size=1, max_size=2, unique=True))
        shared = {"type": draw(st.sampled_from([t for t in ["A", "B", "R", "A2"] if t not in outer_types] or ["A2"])), "v": 5, "share": 0}
        pr = {"k": "probe", "lookups": [[t, False] for t in [*outer_types, shared["type"]]]}

        def mk(kind, state, body):
            if kind == "updated":
                return {"k": "updated", "state": state, "body": body}
            return {"k": "scope", "mode": kind, "name": "r", "state": state, "disp": None, "disp_obj": False, "body": body, "prep": 0}

        kinds = st.sampled_from(["updated", "updated", "sync", "async"])
        siblings = []
        for n in range(draw(st.integers(2, 3))):
            inner = mk(draw(kinds), [dict(shared)], [dict(pr)])
            siblings.append(mk(draw(kinds), [{"type": t, "v": n + 1} for t in outer_types], [dict(pr), inner, dict(pr)]))
            siblings.append(dict(pr))
        return {"body": [mk("async", draw(st.lists(P.sv_strategy(), max_size=1)), siblings), dict(pr)]}

    @st.composite
    def dup_disp(draw):
        """several disposables of ONE scope (and sometimes the scope itself) supplying the same type, with different enter
        latencies"""
        types = draw(st.lists(st.sampled_from(["A", "B", "R"]), min_size=1, max_size=2, unique=True))
        disp = []
        for j in range(draw(st.integers(2, 3))):
            beh = draw(st.sampled_from([{"b": "ok"}, {"b": "suspend_ok", "t": 0.25}, {"b": "suspend_ok", "t": 0.75}]))
            ys = [{"type": t, "v": j + 1} for t in types if draw(st.integers(0, 3)) > 0] or [{"type": types[0], "v": j + 1}]
            disp.append({"enter": beh, "yields": ys if len(ys) > 1 or draw(st.booleans()) else ys[0], "exit": {"b": "ok"}, "as": draw(st.sampled_from(["list", "iter", "gen"]))})
        own = [{"type": types[0], "v": 9}] if draw(st.integers(0, 2)) == 0 else []
        pr = {"k": "probe", "lookups": [[t, False] for t in types]}
        inner = {"k": "updated", "state": draw(st.lists(P.sv_strategy(), max_size=1)), "body": [dict(pr)]}
        scope = {"k": "scope", "mode": "async", "name": "d", "state": own, "disp": disp, "disp_obj": draw(st.booleans()), "body": [dict(pr), inner, dict(pr)], "prep": 0}
        return {"body": [{"k": "scope", "mode": "async", "name": "root", "state": draw(st.lists(P.sv_strategy(), max_size=2)), "disp": None, "disp_obj": False, "body": [scope, dict(pr)], "prep": 0}, dict(pr)]}

    return st.one_of(general, general, general, general, general, general, deep_chain(), reuse(), dup_disp())


def budget(tier):
    return {"examples": 800, "shards": 1} if tier == "quick" else {"examples": 12000, "shards": 16}
