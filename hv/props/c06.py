"""C06 - structured concurrency: spawned tasks never outlive their scope.

Case: {"body": [Op], "releases": [[t, gate]], "inject": iteration | null}"""

from __future__ import annotations

from hypothesis import strategies as st

from hv import conc
from hv import progs as P
from hv.core import Outcome

PID = "C06"
LEVEL = "exploration"
TECHNIQUE = "generated spawn programs on the virtual loop (gates released per generated plan, none after a failing body) x cancellation crash points; done()-at-exit invariant and exact hang detection"
RULE = (
    "cases are programs whose async scopes spawn up to 4 tasks through ctx.spawn (from the body, from nested sync scopes "
    "/ updated blocks, from spawned tasks), tasks sleep, block on gates, fail or return; body outcome return / raise / "
    "externally cancelled (every loop iteration is a crash point); gates are released per generated plan when the body "
    "returns and never when it fails, so waiting instead of cancelling is a detected hang; non-trivial = a spawned task "
    "still pending when the body ends, a grandchild, or a spawn from a nested sync block; distinct = distinct program"
)
RULE += "; body outcomes include a CancelledError of the body's own (no cancel request pending); disposables may spawn a task while entering"
RULE += '; resource programs (a task that ends when a disposable of the scope is exited); disposables may spawn while entering'
RULE += '; the outermost scope may have a spawning disposable; scope objects may be created further out than they are entered'
RULE += '; blocks failing with every exception of the family; disposables whose set-up / cleanup absorbs an interruption'
RULE += '; blocks entered inside an `except` handler; disposables that spawn while they exit'
LEVEL_TEXT = (
    "At the first harness instruction after every async scope block (any exit path) every task spawned into it, "
    "transitively, must be done; leaving must terminate (virtual loop quiescence = hang, decided exactly); outside any "
    "scope ctx.spawn yields a running detached task. Schedules are generated (virtual times), cancellation points enumerated."
)
LEVEL_NOTE = "Trusted: virtual loop; ownership of a spawned task = innermost async scope in its spawning lineage (tracked by the interpreter)."
ASSUMPTIONS = [
    "spawned tasks that swallow cancellation are not generated",
    "whether a spawned task's exception surfaces to the caller is not judged",
]
REQUIRED_CLASSES = ["pending-at-body-end", "grandchild", "body-fails-with-pending-tasks", "cancel-injected", "detached-spawn"]


def judge(prog, run, res, out: Outcome, inject, body_fails):
    tag = "cancel" if inject is not None else ("raise" if body_fails else "return")
    if inject is not None and res.get("in_group_exit") and any(e["ev"] == "task_end" and e.get("how") == "failed" for e in run.log):
        # the symptom of known finding KF1 (C07): the cancellation itself was lost because a spawned task had failed
        tag = "cancel-lost-with-failed-child"
    classes = set()
    if res["outcome"] == "hang":
        pend = [str(p) for p, t in run.tasks.items() if not t.done()]
        out.violate("term", f"C06.term/leaving-never-terminates/{tag}", f"pending spawned tasks {pend}; inject={inject}")
        return classes
    for e in run.log:
        if e["ev"] == "spawn_raised" and e["owner"] is None and "t" not in tuple(e["path"]):
            # outside any scope a spawn yields a detached, running task - whatever scopes were entered and left before
            classes.add("detached-spawn")
            out.violate("detached", f"C06.detached/spawn-outside-any-scope-raised/{type(e['exc']).__name__}/{tag}", f"at {e['path']}: {e['exc']!r}")
    seq = {id(e): i for i, e in enumerate(run.log)}
    ends = {tuple(e["path"]): e for e in run.log if e["ev"] == "task_end"}
    vdone = next((e for e in run.log if e["ev"] == "victim_done"), run.log[-1])
    for e in run.log:
        if e["ev"] == "block_exit" and e.get("mode") == "async":
            notdone = [p for p, d in e["owned_done"].items() if not d]
            if notdone:
                how = "normal" if e["exc"] is None else type(e["exc"]).__name__
                out.violate(
                    "outlive",
                    f"C06.outlive/task-not-done-at-block-exit/left-by-{how}/{tag}",
                    f"scope {e['path']} left ({how}) while spawned tasks {notdone} still running; inject={inject}",
                )
        if e["ev"] == "body_end" or (e["ev"] == "raise" and "t" not in tuple(e["path"])):
            # pending owned tasks at the moment the body ends
            p = tuple(e["path"])
            for sp, owner in run.owner_of.items():
                if owner is not None and p[: len(owner)] == owner:
                    te = ends.get(sp)
                    if te is None or seq[id(te)] > seq[id(e)]:
                        classes.add("pending-at-body-end")
                        if e["ev"] == "raise":
                            classes.add("body-fails-with-pending-tasks")
    _late_tasks(prog, run, res, out, inject, tag)
    for sp in run.owner_of:
        if sp.count("t") >= 1 and run.owner_of[sp] is not None:
            classes.add("grandchild")
    # detached spawn (outside any scope): runs, is not awaited by anyone, not cancelled by unrelated scope exits
    for sp, owner in run.owner_of.items():
        if owner is None and prog["body"][sp[0]]["k"] == "spawn" and prog["body"][sp[0]]["via"] == "ctx" and len(sp) == 1:
            classes.add("detached-spawn")
            started = any(e["ev"] == "task_start" and tuple(e["path"]) == sp for e in run.log)
            te = ends.get(sp)
            if not started:
                out.violate("detached", f"C06.detached/never-ran/{tag}", str(sp))
            elif te is not None and te["how"] == "cancelled" and inject is None and seq[id(te)] < seq[id(vdone)]:
                out.violate("detached", f"C06.detached/cancelled-by-unrelated-scope/{tag}", str(sp))
    return classes


def _exit_delay(prog, scope_path):
    """longest time the disposables of the scopes enclosing (and including) scope_path may legitimately take to exit"""
    total = 0.0
    node_ops = prog["body"]
    node = None
    for depth, idx in enumerate(scope_path):
        if idx == "t":
            node_ops = node["body"]
            continue
        node = node_ops[idx]
        if node["k"] == "scope" and node.get("mode") == "async":
            for ph in ("enter", "exit"):
                total += max([d[ph].get("t", 0) for d in (node.get("disp") or []) if d[ph]["b"].startswith("suspend")] + [0])
        node_ops = node.get("body", [])
    return total


def _late_tasks(prog, run, res, out, inject, tag):
    """When a body fails (raise) or the victim is cancelled at time T, the tasks spawned into the scopes being left
    must be cancelled, not awaited: they have to end by T plus the time the scopes' own disposables take to exit."""
    ends = {tuple(e["path"]): e for e in run.log if e["ev"] == "task_done"}
    spawns = {tuple(e["path"]): e for e in run.log if e["ev"] == "spawn"}
    failures = []  # (time, iteration, path of the failing point)
    for e in run.log:
        if e["ev"] == "raise":
            failures.append((e["t"], e["it"], tuple(e["path"])))
    if inject is not None and res.get("inject_time") is not None:
        # the victim (main task) is cancelled wherever it is: every scope it is inside is being left
        failures.append((res["inject_time"], inject, None))
    exits = {tuple(e["path"]): e for e in run.log if e["ev"] == "block_exit"}
    for t_fail, it_fail, fpath in failures:
        for sp, owner in run.owner_of.items():
            if owner is None or sp not in spawns or spawns[sp]["it"] > it_fail:
                continue
            if fpath is not None:
                # the failing point must be inside the owning scope and in the same task segment
                if fpath[: len(owner)] != owner or "t" in fpath[len(owner):]:
                    continue
            else:
                if "t" in owner:  # owned by a scope entered inside a spawned task: not the victim's
                    continue
                ex = exits.get(owner)
                if ex is not None and ex["it"] < it_fail:
                    continue  # that scope had already been left
            te = ends.get(sp)
            if te is not None and te["it"] < it_fail:
                continue  # finished before the failure
            # everything the victim is inside at the failure is unwound innermost first; each scope's own disposables
            # may legitimately take their (generated) suspension time
            deepest = fpath
            if deepest is None:
                open_blocks = [tuple(e["path"]) for e in run.log if e["ev"] == "block_enter" and e["it"] <= it_fail and "t" not in tuple(e["path"])
                               and not (tuple(e["path"]) in exits and exits[tuple(e["path"])]["it"] < it_fail)]
                deepest = max(open_blocks, key=len) if open_blocks else owner
            bound = t_fail + _exit_delay(prog, deepest)
            if te is None or te["t"] > bound:
                out.violate(
                    "cancel",
                    f"C06.cancel/awaited-instead-of-cancelled/{tag}",
                    f"task {sp} of scope {owner} pending when the body failed at t={t_fail} ended {te and (te['cancelled'], te['t'])} (bound {bound}); inject={inject}",
                )
                return


async def _let_detached_finish(run):
    """tasks spawned outside any scope are nobody's to await: give them (virtual) time before teardown"""
    import asyncio

    detached = [t for p, t in run.tasks.items() if run.owner_of.get(p) is None and len(p) == 1 and not t.done()]
    if detached:
        await asyncio.wait(detached, timeout=100)


def run_case(case) -> Outcome:
    out = Outcome()
    main_raises = any(op["k"] == "raise" and "t" not in p for p, op in P.walk_blocks(case["body"]))
    # every gate is eventually released (a hang can only be the library's); tasks that should have been cancelled
    # are recognised by WHEN they end (exact virtual time), see _late_tasks
    rel = conc.release_plan(case, complete=True)
    run, dry = P.execute(case, releases=rel, after=_let_detached_finish)
    classes = judge(case, run, dry, out, None, main_raises)
    runs = 1
    if dry["outcome"] != "hang":
        points = [case["inject"]] if case.get("inject") is not None else range(1, dry["iterations"] + 1)
        for k in points:
            if out.violations:
                break
            run, res = P.execute(case, inject_at=k, releases=rel)
            runs += 1
            if res["injected"]:
                classes |= judge(case, run, res, out, k, True)
                classes.add("cancel-injected")
            else:
                # the program ended before iteration k: a repetition of the fault-free run (under a fresh event loop)
                classes |= judge(case, run, res, out, None, main_raises)
    out.classes = sorted(classes)
    out.counts = {"executions": runs}
    out.nontrivial = bool(classes & {"pending-at-body-end", "grandchild"})
    return out


def strategy(tier):
    progs = conc.program(disp_faults=False, body_raises=True, top_spawn=True)
    return st.one_of(progs, progs, progs, progs, conc.resource_program(), conc.prepared_program(), conc.failing_body_program(), conc.absorbing_disposable_program(), conc.handler_program()).map(lambda p: {**p, "inject": None})


def budget(tier):
    return {"examples": 400, "shards": 1} if tier == "quick" else {"examples": 1500, "shards": 16}
