"""C03 - tasks inherit a context snapshot and never observe each other's scopes.

Case: {"tasks": [script, ...], "choices": [int, ...] | null, "exhaustive": bool}
script: list of steps  {"s":"enter","kind":"async"|"sync"|"updated","state":[SV]} | {"s":"exit"} | {"s":"probe_nodefault","types":[...]}
                     | {"s":"spawn","via":"ctx"|"asyncio","task": index of the child's script}
Task 0 is the root; other tasks start when some task executes the spawn step that names them. A driver releases one
step of one task at a time (choice list, modulo the number of runnable tasks); after every step every live task that
is not mid-operation is probed inside its own task and compared with its own reference stack."""

from __future__ import annotations

import asyncio

from hypothesis import strategies as st

from haiway import ctx
from hv import progs as P
from hv import vloop
from hv.core import Outcome

PID = "C03"
LEVEL = "exploration"
TECHNIQUE = "schedule-owning driver (one task step at a time) over generated multi-task scope scripts; per-task reference stacks; all interleavings enumerated for small programs"
RULE = (
    "cases are 2..4 task scripts (enter/exit of async scopes, sync scopes and updated blocks as separate steps, lookups "
    "without default, spawning further tasks through ctx.spawn or asyncio.create_task) plus a choice list that fixes the "
    "interleaving step by step; small programs are run under ALL interleavings (cap 3000 per program), larger ones "
    "under generated ones; after every step every live task is probed; non-trivial = >=2 tasks simultaneously inside "
    "blocks supplying different values of one type with >=1 context switch between them; distinct = distinct "
    "program+schedule"
)
RULE += "; one State instance may be shared by several blocks of several tasks (a constant), incl. the template 'same constant on top of different enclosing blocks while a task of the first combination is alive'"
LEVEL_TEXT = (
    "The harness owns the schedule: every step of every task is released explicitly, so each interleaving is a value. "
    "Each task's view (state per family type, by identity) must equal its own reference stack (snapshot of the creator "
    "at spawn + its own blocks) after every step of any task. Exhaustive over interleavings for small programs, sampled "
    "beyond."
)
LEVEL_NOTE = "Trusted: the step protocol (a task executes exactly one step per release); reference stacks; virtual loop."
ASSUMPTIONS = [
    "a task blocked inside a scope exit (waiting for tasks spawned into that scope) is 'mid-operation' and not probed until it finishes the step",
    "per case the per-step probes use explicit sentinel defaults, no default at all, or both; a lookup without default may cache a default-constructed instance inside the library, which must not change what any task sees",
]
REQUIRED_CLASSES = ["concurrent-different-values", "context-switch-inside", "ctx-spawn", "asyncio-create_task", "exhaustive-interleavings", "lookups-without-default-compared"]

CAP = 3000


class Sched:
    """choice source: a list interpreted modulo the number of options; records (choice, options) for enumeration"""

    def __init__(self, choices):
        self.choices = list(choices or [])
        self.trace = []

    def pick(self, n):
        i = len(self.trace)
        c = (self.choices[i] if i < len(self.choices) else 0) % n
        self.trace.append((c, n))
        return c


def _gc_fence():
    """make the full collections inside ONE case cheap: everything alive when the case starts (the test tooling's large,
    long-lived heap) is moved to the permanent generation, so gc.collect() during the case only looks at the case's own
    objects. Objects frozen here are never freed; the process is short-lived and this happens for a fraction of cases."""
    import gc

    gc.collect()
    gc.freeze()


def _collect():
    import gc

    gc.collect()


def execute(case, sched: Sched):
    scripts = case["tasks"]
    obs = {"violations": [], "classes": set(), "steps": 0, "hang": False}
    if case.get("gc"):
        _gc_fence()
    sent = P.sentinels()
    labels = {id(s): ("sentinel", n) for n, s in sent.items()}
    keep = []
    shared: dict = {}

    def make(sv, lbl):
        """a fresh State instance - or, for SVs marked "share", ONE instance per (type, value, share) used by every block
        of every task that names it (a module-level constant handed to ctx.updated / ctx.scope again and again)"""
        if sv.get("share") is not None:
            key = (sv["type"], sv["v"], sv["share"])
            if key in shared:
                obs["classes"].add("one-state-instance-in-several-blocks")
                return shared[key], labels[id(shared[key])]
        obj = P.make_state(sv)
        keep.append(obj)
        labels[id(obj)] = lbl
        if sv.get("share") is not None:
            shared[key] = obj
        return obj, lbl

    fp_mode = case.get("fp", "default")

    def fingerprint():
        """the task's view per family type: with an explicit sentinel default and / or without any default"""
        st_ = {}
        for n, T in P.FAMILY.items():
            if fp_mode in ("default", "both"):
                try:
                    v = ctx.state(T, default=sent[n])
                    st_[n] = labels.get(id(v), ("unknown", repr(v)))
                except Exception as exc:  # noqa: BLE001
                    st_[n] = type(exc).__name__
            if fp_mode in ("nodefault", "both"):
                try:
                    v = ctx.state(T)
                    st_[n, "nodefault"] = labels.get(id(v), ("unknown", repr(v)))
                except Exception as exc:  # noqa: BLE001
                    st_[n, "nodefault"] = type(exc).__name__
        return st_

    async def main(loop):
        tasks = {}  # tid -> dict(cmd future, pos, busy, stack(ref), done, task)

        def expected(tid):
            ref = tasks[tid]["ref"]
            if tasks[tid]["ctxless"] and not ref:
                return {k: "MissingContext" for n in P.FAMILY for k in (n, (n, "nodefault"))}
            res = {}
            for n in P.FAMILY:
                hit = None
                for fr in reversed(ref):
                    if n in fr:
                        hit = fr[n]
                        break
                res[n] = hit if hit is not None else [("sentinel", n)]
                if hit is not None:
                    res[n, "nodefault"] = hit
                elif n in P.DEFAULTABLE:
                    res[n, "nodefault"] = [("unknown", repr(P.FAMILY[n]()))]
                elif n == "G":
                    res[n, "nodefault"] = None  # bare generic: default-constructibility unspecified
                else:
                    res[n, "nodefault"] = "MissingState"
            return res

        async def runner(tid):
            me = tasks[tid]
            cms = []
            prepared = []
            while True:
                me["cmd"] = loop.create_future()
                me["idle"] = True
                cmd = await me["cmd"]
                me["idle"] = False
                if cmd == "stop":
                    break
                if cmd == "probe":
                    me["last_fp"] = fingerprint()
                    continue
                step = scripts[tid][me["pos"]]
                me["pos"] += 1
                s = step["s"]
                if s == "prepare":
                    # the scope OBJECT is built now (here: under the task's current blocks) and entered by a later step
                    insts, frame = [], {}
                    for i, sv in enumerate(step["state"]):
                        obj, lbl = make(sv, (tid, me["pos"], i))
                        insts.append(obj)
                        frame.setdefault(sv["type"], []).append(lbl)
                    prepared.append((step["kind"], ctx.scope("p", *insts), frame))
                elif s == "enter_prepared":
                    if prepared:
                        kind, cm, frame = prepared.pop(0)
                        if kind == "sync":
                            cm.__enter__()
                        else:
                            await cm.__aenter__()
                        cms.append((kind, cm))
                        me["ref"].append(frame)
                elif s == "enter":
                    insts = []
                    frame = {}
                    for i, sv in enumerate(step["state"]):
                        obj, lbl = make(sv, (tid, me["pos"], i))
                        insts.append(obj)
                        frame.setdefault(sv["type"], []).append(lbl)
                    if step["kind"] == "updated":
                        cm = ctx.updated(*insts)
                        cm.__enter__()
                    elif step["kind"] == "sync":
                        cm = ctx.scope("t", *insts)
                        cm.__enter__()
                    else:
                        cm = ctx.scope("t", *insts)
                        await cm.__aenter__()
                    cms.append((step["kind"], cm))
                    me["ref"].append(frame)
                elif s == "exit":
                    if cms:
                        kind, cm = cms.pop()
                        # the reference stack shrinks when the exit STARTS: from then on the task is mid-operation
                        me["ref"].pop()
                        if kind == "async":
                            await cm.__aexit__(None, None, None)
                        else:
                            cm.__exit__(None, None, None)
                        cm = None  # the harness keeps nothing of a block that was left
                elif s == "probe_nodefault":
                    for n in step["types"]:
                        try:
                            ctx.state(P.FAMILY[n])
                        except Exception:  # noqa: BLE001 - MissingState / MissingContext are legitimate answers here
                            pass
                elif s == "spawn":
                    child = step["task"]
                    if child not in tasks and child < len(scripts):
                        tasks[child] = {"pos": 0, "ref": [dict(f) for f in me["ref"]], "ctxless": me["ctxless"] and not me["ref"], "idle": False, "cmd": None}
                        if step["via"] == "ctx":
                            try:
                                tasks[child]["task"] = ctx.spawn(runner, child)
                                obs["classes"].add("ctx-spawn")
                            except RuntimeError:
                                # the inherited task group has already finished: asyncio refuses the spawn
                                del tasks[child]
                        else:
                            tasks[child]["task"] = loop.create_task(runner(child))
                            obs["classes"].add("asyncio-create_task")
            # leave everything still entered, innermost first
            while cms:
                kind, cm = cms.pop()
                me["ref"].pop()
                if kind == "async":
                    await cm.__aexit__(None, None, None)
                else:
                    cm.__exit__(None, None, None)

        tasks[0] = {"pos": 0, "ref": [], "ctxless": True, "idle": False, "cmd": None}
        tasks[0]["task"] = loop.create_task(runner(0))
        await vloop.settle()
        last = None
        switches_inside = False
        while True:
            runnable = [t for t in sorted(tasks) if tasks[t]["idle"] and tasks[t]["pos"] < len(scripts[t]) and not tasks[t]["task"].done()]
            if not runnable:
                break
            tid = runnable[sched.pick(len(runnable))]
            inside = [t for t in tasks if tasks[t]["ref"] and not tasks[t]["task"].done()]
            if last is not None and tid != last and len(inside) >= 2:
                switches_inside = True
            last = tid
            tasks[tid]["cmd"].set_result("step")
            await vloop.settle()
            obs["steps"] += 1
            if case.get("gc"):
                # a garbage collection between any two steps must not change what anybody sees (state that is only
                # weakly held, objects revived or finalised early)
                _collect()
                obs["classes"].add("gc-between-steps")
            # probe every live task that is not mid-operation, inside that task
            live = [t for t in sorted(tasks) if tasks[t]["idle"] and not tasks[t]["task"].done()]
            for t in live:
                tasks[t]["cmd"].set_result("probe")
            await vloop.settle()
            vals = {}
            for t in live:
                got, exp = tasks[t].get("last_fp"), expected(t)
                if got is None:
                    continue
                for key in got:
                    n = key if isinstance(key, str) else key[0]
                    if exp[key] is None:
                        continue
                    ok = got[key] == exp[key] if isinstance(exp[key], str) else got[key] in exp[key]
                    if not ok:
                        who = "own-block-lost" if any(n in fr for fr in tasks[t]["ref"]) else "foreign-state-visible"
                        form = "" if isinstance(key, str) else "/lookup-without-default"
                        obs["violations"].append(
                            (
                                f"C03.isolation/{who}{form}",
                                f"after step {obs['steps']} (task {tid} stepped) task {t} sees {key}={got[key]} expected {exp[key]}; schedule={[c for c, _ in sched.trace]}",
                            )
                        )
                    vals.setdefault(n, set()).add(str(got[key]))
                if fp_mode != "default":
                    obs["classes"].add("lookups-without-default-compared")
            if any(len(v) >= 2 for v in vals.values()) and len(inside) >= 2:
                obs["classes"].add("concurrent-different-values")
            if obs["violations"]:
                break
        if switches_inside:
            obs["classes"].add("context-switch-inside")
        # wind down: stop every task (children first finish on their own exits)
        for _ in range(len(scripts) + 2):
            for t in sorted(tasks, reverse=True):
                if tasks[t]["idle"] and not tasks[t]["task"].done():
                    tasks[t]["cmd"].set_result("stop")
            await vloop.settle()
        pending = [t for t in tasks if not tasks[t]["task"].done()]
        if pending and not obs["violations"]:
            obs["violations"].append(("C03.term/tasks-stuck", f"tasks {pending} never finished; schedule={[c for c, _ in sched.trace]}"))
        return None

    res = vloop.run(main)
    if res.outcome == "raise":
        raise res.value
    if res.outcome == "hang":
        obs["hang"] = True
    return obs


def next_choices(trace):
    """mixed-radix successor of a recorded (choice, options) trace; None when exhausted"""
    tr = list(trace)
    while tr:
        c, n = tr[-1]
        if c + 1 < n:
            return [x for x, _ in tr[:-1]] + [c + 1]
        tr.pop()
    return None


def run_case(case) -> Outcome:
    out = Outcome()
    runs = 0
    classes = set()
    if case.get("exhaustive"):
        choices = []
        complete = True
        while choices is not None:
            sched = Sched(choices)
            obs = execute(case, sched)
            runs += 1
            classes |= obs["classes"]
            for sig, detail in obs["violations"][:3]:
                out.violate("isolation", sig, detail)
            if obs["hang"]:
                out.violate("term", "C03.term/hang", f"schedule={[c for c, _ in sched.trace]}")
            if out.violations:
                break
            choices = next_choices(sched.trace)
            if runs >= CAP:
                complete = choices is None
                break
        if complete:
            classes.add("exhaustive-interleavings")
        else:
            out.unspecified.append("interleaving-cap-hit")
    else:
        sched = Sched(case.get("choices"))
        obs = execute(case, sched)
        runs = 1
        classes |= obs["classes"]
        for sig, detail in obs["violations"][:3]:
            out.violate("isolation", sig, detail)
        if obs["hang"]:
            out.violate("term", "C03.term/hang", f"schedule={[c for c, _ in sched.trace]}")
    out.classes = sorted(classes)
    out.counts = {"executions": runs}
    out.nontrivial = "concurrent-different-values" in classes and "context-switch-inside" in classes
    return out


def strategy(tier):
    fresh = st.builds(lambda n, v: {"type": n, "v": v}, st.sampled_from(["A", "A", "B", "A2", "G[int]", "R"]), st.integers(1, 9))
    const = st.builds(lambda n, v: {"type": n, "v": v, "share": 0}, st.sampled_from(["A", "B", "A2"]), st.integers(1, 2))
    sv = st.one_of(fresh, fresh, fresh, const)

    @st.composite
    def same_constant_under_different_parents(draw):
        """one State instance S applied on top of DIFFERENT enclosing blocks one after the other, while a task started
        under the first combination is still alive: the second combination is (second parent + S), nothing of the first"""
        a, b = draw(st.sampled_from([("A", "A"), ("A", "B"), ("B", "A"), ("A2", "A")]))
        s_t = draw(st.sampled_from(["B", "A2", "G[int]"])) if a != "B" and b != "B" else "A2"
        S = {"type": s_t, "v": 5, "share": 1}
        kinds = st.sampled_from(["updated", "updated", "sync", "async"])
        rounds = draw(st.integers(2, 4))
        root = []
        scripts = [root]
        for r in range(rounds):
            outer = {"type": a if r % 2 == 0 else b, "v": 1 + r}
            root.append({"s": "enter", "kind": draw(kinds), "state": [outer]})
            root.append({"s": "enter", "kind": "updated" if draw(st.booleans()) else draw(kinds), "state": [S]})
            if r < rounds - 1 and len(scripts) < 4:
                child = len(scripts)
                scripts.append([{"s": "probe_nodefault", "types": [a]}] * draw(st.integers(1, 2)))
                root.append({"s": "spawn", "via": "asyncio", "task": child})
            else:
                root.append({"s": "probe_nodefault", "types": [a, b]})
            root.append({"s": "exit"})
            root.append({"s": "exit"})
        # the root runs ahead: the children take their steps at the very end (they only have to stay alive)
        return {"tasks": scripts, "choices": [0] * 40, "exhaustive": False, "fp": draw(st.sampled_from(["default", "both"])), "gc": draw(st.booleans())}

    @st.composite
    def cases(draw):
        exhaustive = draw(st.integers(0, 9)) == 0
        ntasks = draw(st.integers(2, 3 if exhaustive else 4))
        scripts = []
        spawned = set()
        for tid in range(ntasks):
            n = draw(st.integers(1, 3 if exhaustive else 6))
            steps = []
            depth = 0
            pending_prepared = 0
            for _ in range(n):
                kinds = ["enter", "enter", "probe_nodefault", "prepare"]
                if depth > 0:
                    kinds += ["exit", "exit"]
                if pending_prepared > 0:
                    kinds += ["enter_prepared", "enter_prepared"]
                k = draw(st.sampled_from(kinds))
                if k == "prepare":
                    steps.append({"s": "prepare", "kind": draw(st.sampled_from(["async", "sync"])), "state": draw(st.lists(sv, min_size=1, max_size=2))})
                    pending_prepared += 1
                elif k == "enter_prepared":
                    steps.append({"s": "enter_prepared"})
                    pending_prepared -= 1
                    depth += 1
                elif k == "enter":
                    steps.append({"s": "enter", "kind": draw(st.sampled_from(["async", "sync", "updated"])), "state": draw(st.lists(sv, min_size=1, max_size=2))})
                    depth += 1
                elif k == "exit":
                    steps.append({"s": "exit"})
                    depth -= 1
                else:
                    steps.append({"s": "probe_nodefault", "types": draw(st.lists(st.sampled_from(["A", "B", "A2"]), min_size=1, max_size=2))})
            scripts.append(steps)
        # every task except the root is spawned by an earlier task at a generated position
        for child in range(1, ntasks):
            parent = draw(st.integers(0, child - 1))
            pos = draw(st.integers(0, len(scripts[parent])))
            scripts[parent].insert(pos, {"s": "spawn", "via": draw(st.sampled_from(["ctx", "asyncio"])), "task": child})
            spawned.add(child)
        choices = None if exhaustive else draw(st.lists(st.integers(0, 3), min_size=0, max_size=30))
        fp = draw(st.sampled_from(["default", "nodefault", "both"]))
        gc_ = (not exhaustive) and draw(st.integers(0, 7)) == 0
        return {"tasks": scripts, "choices": choices, "exhaustive": exhaustive, "fp": fp, "gc": gc_}

    return st.one_of(cases(), cases(), cases(), cases(), same_constant_under_different_parents())


def budget(tier):
    return {"examples": 1000, "shards": 1} if tier == "quick" else {"examples": 4000, "shards": 16}
