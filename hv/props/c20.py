"""C20 - MISSING is a process-wide singleton under every way of obtaining it.

Case: {"shape": S, "ops": [op, ...]} with op in copy | deepcopy | pickle0..pickleN.
S is a plain-data description of a value that holds MISSING (or a look-alike) at some depth."""

from __future__ import annotations

import copy
import dataclasses
import itertools
import pickle
from collections.abc import Sequence
from typing import Any

from hypothesis import strategies as st

from haiway import MISSING, Missing, State, is_missing, not_missing, when_missing
from hv.core import Outcome

PID = "C20"
LEVEL = "exploration"
TECHNIQUE = "round-trip / identity oracle over generated nested values x copy, deepcopy, pickle protocols (exhaustive grid for depth<=2)"
RULE = (
    "cases are (shape, operation list): shape is a nested value (list/tuple/dict/dataclass/State) holding MISSING, "
    "Missing() or a look-alike at depth<=4; operations are copy, deepcopy and pickle round trips at every protocol, "
    "alone and composed in pairs; the grid (all single and paired operations x all shapes of depth<=2) is enumerated "
    "completely, deeper shapes are generated; non-trivial = MISSING nested at depth>=1 or a look-alike value; "
    "distinct = distinct (shape, ops)"
)
RULE += '; modification attempts also go around __setattr__ (object.__setattr__, vars())'
RULE += "; other libraries' sentinels as predicate arguments; __weakref__ / __dict__ / weakref.ref probes"
RULE += '; the Missing type as predicate argument; exception instances as fallbacks'
RULE += '; when_missing with the fallback by keyword; ordinary leaves judged after copy / deepcopy / pickle'
LEVEL_TEXT = (
    "Identity oracle: every position that held MISSING before copy/deepcopy/pickle must hold the very same object "
    "after; predicates must agree with identity for every generated value. The operation x protocol x shape(depth<=2) "
    "grid is exhaustive; deeper nestings are sampled."
)
LEVEL_NOTE = "Trusted: CPython copy/pickle machinery; harness-defined container classes are ordinary picklable classes."
ASSUMPTIONS = [
    "look-alike objects' own __eq__ governs `lookalike == MISSING`; only `MISSING == x` is asserted for them",
    "hashing of MISSING is not part of the statement and not checked",
]
EXHAUSTIVE_MEANS = "all single and paired operations (copy, deepcopy, pickle protocols 0..HIGHEST) x all shapes of depth<=2"
REQUIRED_CLASSES = ["nested-depth>=1", "look-alike", "state-holding-missing", "pickle"]

PROTOCOLS = list(range(pickle.HIGHEST_PROTOCOL + 1))
OPS = ["copy", "deepcopy"] + [f"pickle{p}" for p in PROTOCOLS]


class AlwaysEq:
    def __eq__(self, other):
        return True

    def __hash__(self):
        return 0


class Falsy:
    def __bool__(self):
        return False

    def __eq__(self, other):  # value equality, so that a (deep) copy of a holder stays equal to the original
        return type(other) is Falsy

    def __hash__(self):
        return 1


class ClaimsMissing:
    """claims to be a Missing through __class__ (as Mock(spec=Missing) does): still not THE missing value"""

    @property
    def __class__(self):  # noqa: PLW3201
        return Missing

    def __eq__(self, other):
        return type(other) is ClaimsMissing

    def __hash__(self):
        return 2

    def __reduce__(self):  # copy / pickle must rebuild THIS class, not the one it claims to be
        return (ClaimsMissing, ())


# sentinels of other libraries, and the Missing TYPE itself (the class is not the value)
_FOREIGN_SENTINELS = [dataclasses.MISSING, __import__("inspect").Parameter.empty, Ellipsis, NotImplemented, Missing, type(MISSING)]
LIKES = [None, False, 0, "", (), [], {}, AlwaysEq(), Falsy(), 0.0, "MISSING", ClaimsMissing()]


@dataclasses.dataclass
class DC:
    v: Any
    w: Any = None


class M1(State):
    a: int | Missing = MISSING
    b: str = "b"


class M1N(State):  # the same without a class-level default: a missing argument is stored as MISSING in the instance only
    a: int | Missing
    b: str = "b"


class M2(State):
    inner: M1 | Missing = MISSING
    items: Sequence[M1] = ()


class M3(State):
    payload: Any = None


def build(s):
    k = s["k"]
    if k == "missing":
        return MISSING
    if k == "call":
        return Missing()
    if k == "like":
        v = LIKES[s["i"] % len(LIKES)]
        return copy.copy(v) if isinstance(v, (list, dict)) else v
    if k == "list":
        return [build(x) for x in s["items"]]
    if k == "tuple":
        return tuple(build(x) for x in s["items"])
    if k == "dict":
        return {f"k{i}": build(x) for i, x in enumerate(s["items"])}
    if k == "dc":
        return DC(v=build(s["v"]))
    if k == "m1":
        cls = M1N if s.get("nd") else M1
        return cls() if s["a"] is None else cls(a=s["a"])
    if k == "m2":
        # M2's attributes are annotated with M1 itself: the no-class-default variant is only used on its own
        return M2(
            inner=build({**s["inner"], "nd": False}) if s["inner"] is not None else MISSING,
            items=[build({**x, "nd": False}) for x in s["items"]],
        )
    if k == "m3":
        return M3(payload=build(s["payload"]))
    raise ValueError(k)


def depth_of_missing(s, d=0):
    """max depth at which MISSING occurs, or -1"""
    k = s["k"]
    if k in ("missing", "call"):
        return d
    if k == "like":
        return -1
    if k in ("list", "tuple", "dict"):
        return max([depth_of_missing(x, d + 1) for x in s["items"]] + [-1])
    if k == "dc":
        return depth_of_missing(s["v"], d + 1)
    if k == "m1":
        return d + 1 if s["a"] is None else -1
    if k == "m2":
        return max(
            [depth_of_missing(s["inner"], d + 1) if s["inner"] is not None else d + 1]
            + [depth_of_missing(x, d + 1) for x in s["items"]]
        )
    if k == "m3":
        return depth_of_missing(s["payload"], d + 1)
    return -1


def has(s, kinds):
    if s["k"] in kinds:
        return True
    for key in ("items",):
        if key in s and any(has(x, kinds) for x in s[key]):
            return True
    for key in ("v", "inner", "payload"):
        if isinstance(s.get(key), dict) and has(s[key], kinds):
            return True
    return False


def twin(s):
    """the same shape with every MISSING replaced by an ordinary value (for the differential below)"""
    k = s["k"]
    if k in ("missing", "call"):
        return {"k": "like", "i": 0}
    if k == "like":
        return s
    if k in ("list", "tuple", "dict"):
        return {"k": k, "items": [twin(x) for x in s["items"]]}
    if k == "dc":
        return {"k": "dc", "v": twin(s["v"])}
    if k == "m1":
        return {"k": "m1", "a": 0 if s["a"] is None else s["a"], "nd": s.get("nd", False)}
    if k == "m2":
        return {
            "k": "m2",
            "inner": twin(s["inner"]) if s["inner"] is not None else {"k": "m1", "a": 0},
            "items": [twin(x) for x in s["items"]],
        }
    if k == "m3":
        return {"k": "m3", "payload": twin(s["payload"])}
    raise ValueError(k)


def apply(op, x):
    if op == "copy":
        return copy.copy(x)
    if op == "deepcopy":
        return copy.deepcopy(x)
    return pickle.loads(pickle.dumps(x, int(op[6:])))


_ABSENT = object()


def compare(out: Outcome, path, a, b, opname):
    """a: before, b: after. Every MISSING position must be the identical object afterwards."""
    if a is MISSING:
        if b is not MISSING:
            out.violate(
                "identity",
                f"C20.identity/{'pickle' if opname.startswith('pickle') else opname}/second-instance",
                f"path={path} op={opname} got {type(b).__name__} id differs (is Missing: {type(b) is Missing})",
            )
        return
    if isinstance(a, State):
        if type(b) is not type(a):
            out.violate("state", f"C20.state/{opname.rstrip('012345')}/class-changed", f"{path}: {type(b)}")
            return
        for name in type(a).__ATTRIBUTES__:
            got = getattr(b, name, _ABSENT)
            if got is _ABSENT and getattr(a, name, _ABSENT) is not _ABSENT:
                out.violate("state", f"C20.state/{opname.rstrip('012345')}/attribute-lost", f"{path}.{name}: the original holds {getattr(a, name)!r}, the result has no such attribute")
                continue
            compare(out, f"{path}.{name}", getattr(a, name, MISSING), got, opname)
        try:
            if a.as_dict().keys() != b.as_dict().keys():
                out.violate("state", f"C20.state/{opname.rstrip('012345')}/as_dict-keys", f"{a.as_dict()} vs {b.as_dict()}")
            if not (a == b):
                out.violate("state", f"C20.state/{opname.rstrip('012345')}/copy-not-equal", f"{a} vs {b}")
        except Exception as exc:  # noqa: BLE001
            out.violate("state", f"C20.state/{opname.rstrip('012345')}/compare-raised", repr(exc))
        return
    if isinstance(a, DC):
        if not isinstance(b, DC):
            out.violate("identity", "C20.identity/shape-changed", f"{path}: {type(b)}")
            return
        compare(out, path + ".v", a.v, b.v, opname)
        return
    if isinstance(a, (list, tuple)):
        if type(a) is not type(b) or len(a) != len(b):
            out.violate("identity", "C20.identity/shape-changed", f"{path}: {b!r}")
            return
        for i, (x, y) in enumerate(zip(a, b)):
            compare(out, f"{path}[{i}]", x, y, opname)
        return
    if isinstance(a, dict):
        if not isinstance(b, dict) or list(a) != list(b):
            out.violate("identity", "C20.identity/shape-changed", f"{path}: {b!r}")
            return
        for key in a:
            compare(out, f"{path}[{key!r}]", a[key], b[key], opname)
        return
    # any other value: it was not MISSING before, so it is not MISSING afterwards - nor anything of another type (a look-alike,
    # an object that claims equality with everything, a falsy value stays what it is)
    if b is MISSING or type(b) is not type(a):
        out.violate("identity", f"C20.identity/{'pickle' if opname.startswith('pickle') else opname}/ordinary-value-replaced", f"path={path} op={opname}: {a!r} became {b!r}")


def walk_values(x, acc):
    acc.append(x)
    if isinstance(x, State):
        for name in type(x).__ATTRIBUTES__:
            walk_values(getattr(x, name, MISSING), acc)
    elif isinstance(x, DC):
        walk_values(x.v, acc)
    elif isinstance(x, (list, tuple)):
        for y in x:
            walk_values(y, acc)
    elif isinstance(x, dict):
        for y in x.values():
            walk_values(y, acc)


def _fallback_fn():
    raise AssertionError("the fallback value was called")


_FALLBACKS = [dict, list, _fallback_fn, Missing, MISSING, None, 0, "", len, ValueError("a fallback value"), KeyError, StopIteration("a fallback value")]


def check_predicates(out: Outcome, x):
    real = x is MISSING
    sentinel = object()
    try:
        if is_missing(x) is not real:
            out.violate("pred", "C20.pred/is_missing", repr(x))
        if not_missing(x) is not (not real):
            out.violate("pred", "C20.pred/not_missing", repr(x))
        w = when_missing(x, sentinel)
        if (w is sentinel) != real or (not real and w is not x):
            out.violate("pred", "C20.pred/when_missing", repr(x))
        # the fallback may be given by its documented name
        w = when_missing(x, value=sentinel)
        if (w is sentinel) != real or (not real and w is not x):
            out.violate("pred", "C20.pred/when_missing/fallback-given-by-keyword", repr(x))
        # the fallback value is a VALUE, whatever it is: callables, classes, falsy objects, MISSING itself, the Missing type
        for fallback in _FALLBACKS:
            w = when_missing(x, fallback)
            if (w is not (fallback if real else x)):
                out.violate("pred", "C20.pred/when_missing/fallback-not-returned-as-it-is", f"when_missing({x!r}, {fallback!r}) -> {w!r}")
        eq = MISSING == x
        if bool(eq) != real:
            out.violate("eq", "C20.eq/MISSING==x", repr(x))
        ne = MISSING != x
        if bool(ne) != (not real):
            out.violate("eq", "C20.eq/MISSING!=x", repr(x))
        if not isinstance(x, AlwaysEq):
            if bool(x == MISSING) != real:
                out.violate("eq", "C20.eq/x==MISSING", repr(x))
        if type(x) is Missing and not real:
            out.violate("identity", "C20.identity/second-instance-present", repr(x))
    except Exception as exc:  # noqa: BLE001
        out.violate("pred", f"C20.pred/raised/{type(exc).__name__}", f"{x!r}: {exc!r}")


class _Impostor:
    __slots__ = ()

    def __bool__(self):
        return True


def check_singleton_basics(out: Outcome):
    if Missing() is not MISSING or type(MISSING)() is not MISSING:
        out.violate("identity", "C20.identity/call/second-instance", "Missing() is not MISSING")
    if bool(MISSING) is not False:
        out.violate("falsy", "C20.falsy", "bool(MISSING)")
    for what, fn in (
        ("getattr", lambda: getattr(MISSING, "anything")),
        ("setattr", lambda: setattr(MISSING, "anything", 1)),
        ("delattr", lambda: delattr(MISSING, "anything")),
        ("setattr-dunder", lambda: setattr(MISSING, "__doc__", "x")),
        ("delattr-dunder", lambda: delattr(MISSING, "__doc__")),
    ):
        try:
            fn()
            out.violate("attr", f"C20.attr/{what}-accepted", what)
        except AttributeError:
            pass
        except Exception as exc:  # noqa: BLE001
            out.violate("attr", f"C20.attr/{what}-wrong-error", repr(exc))
    # per-instance storage under its special names, and the weak-reference slot (state attached to the one object)
    for name in ("__dict__", "__weakref__"):
        try:
            getattr(MISSING, name)
            out.violate("attr", f"C20.attr/getattr-accepted/{name}", name)
        except AttributeError:
            pass
        except Exception as exc:  # noqa: BLE001
            out.violate("attr", f"C20.attr/getattr-wrong-error/{name}", repr(exc))
    try:
        import weakref

        weakref.ref(MISSING)
        out.violate("attr", "C20.attr/weak-reference-accepted", "weakref.ref(MISSING)")
    except TypeError:
        pass
    # sentinels of OTHER libraries that also mean "nothing here": not the missing value of this one
    for foreign in _FOREIGN_SENTINELS:
        check_predicates(out, foreign)
    # modification that goes AROUND the object's own __setattr__: the base-class setter and the instance dictionary. The
    # one MISSING object carries no per-instance storage at all (nothing to attach a marker to, process-wide)
    for what, fn in (
        ("object.__setattr__", lambda: object.__setattr__(MISSING, "hv_marker", 1)),
        ("vars()", lambda: vars(MISSING).__setitem__("hv_marker", 1)),
        ("__dict__", lambda: object.__getattribute__(MISSING, "__dict__").__setitem__("hv_marker", 1)),
    ):
        try:
            fn()
        except (AttributeError, TypeError):
            continue
        except Exception as exc:  # noqa: BLE001
            out.violate("attr", f"C20.attr/{what}-wrong-error", repr(exc))
            continue
        try:  # undo before reporting, so that later cases see an unmarked object again
            object.__getattribute__(MISSING, "__dict__").pop("hv_marker", None)
        except Exception:  # noqa: BLE001
            pass
        out.violate("attr", f"C20.attr/modified-through-{what}", f"{what} stored an attribute on MISSING")
    # the one attribute every object lets you assign: its class (same empty layout, so Python itself would allow it)
    try:
        MISSING.__class__ = _Impostor
    except (AttributeError, TypeError):
        pass
    else:
        object.__setattr__(MISSING, "__class__", Missing)  # undo, so that later cases still see the real thing
        out.violate("attr", "C20.attr/class-reassignment-accepted", "MISSING.__class__ = Impostor")


def run_case(case) -> Outcome:
    out = Outcome()
    shape, ops = case["shape"], case["ops"]
    check_singleton_basics(out)
    x = build(shape)
    vals: list = []
    walk_values(x, vals)
    for v in vals:
        check_predicates(out, v)
    cur = x
    for op in ops:
        try:
            nxt = apply(op, cur)
        except Exception as exc:  # noqa: BLE001
            # differential: does the same operation sequence fail on the MISSING-free twin as well?
            # then the failure is not about MISSING (e.g. State instances are not picklable at all)
            try:
                t = build(twin(shape))
                for o in ops:
                    t = apply(o, t)
                twin_ok = True
            except Exception:  # noqa: BLE001
                twin_ok = False
            if twin_ok:
                out.violate(
                    "roundtrip",
                    f"C20.roundtrip/{'pickle' if op.startswith('pickle') else op}/raised-only-with-MISSING/{type(exc).__name__}",
                    f"{op} on {shape}: {exc!r}",
                )
            else:
                out.unspecified.append(f"operation-unsupported-regardless-of-MISSING/{'pickle' if op.startswith('pickle') else op}")
            break
        compare(out, "$", x, nxt, op)
        vals = []
        walk_values(nxt, vals)
        for v in vals:
            check_predicates(out, v)
        cur = nxt
    check_singleton_basics(out)
    d = depth_of_missing(shape)
    classes = []
    if d >= 1:
        classes.append("nested-depth>=1")
    if d >= 3:
        classes.append("nested-depth>=3")
    if has(shape, {"like"}):
        classes.append("look-alike")
    if has(shape, {"m1", "m2", "m3"}) and d >= 1:
        classes.append("state-holding-missing")
    if any(o.startswith("pickle") for o in ops):
        classes.append("pickle")
    if len(ops) >= 2:
        classes.append("composed-ops")
    out.classes = classes
    out.nontrivial = d >= 1 or has(shape, {"like"})
    return out


# ---------------------------------------------------------------------------------------- generators
def _leaves():
    return [{"k": "missing"}, {"k": "call"}] + [{"k": "like", "i": i} for i in range(len(LIKES))]


def _depth1(inner):
    yield {"k": "list", "items": [inner]}
    yield {"k": "tuple", "items": [inner, {"k": "like", "i": 2}]}
    yield {"k": "dict", "items": [inner]}
    yield {"k": "dc", "v": inner}
    yield {"k": "m3", "payload": inner}


def grid_shapes():
    leaves = _leaves()
    yield from leaves
    for leaf in leaves:
        yield from _depth1(leaf)
    yield {"k": "m1", "a": None}
    yield {"k": "m1", "a": 3}
    yield {"k": "m1", "a": None, "nd": True}
    yield {"k": "m1", "a": 3, "nd": True}
    yield {"k": "list", "items": [{"k": "m1", "a": None, "nd": True}]}
    yield {"k": "m2", "inner": None, "items": []}
    yield {"k": "m2", "inner": {"k": "m1", "a": None}, "items": [{"k": "m1", "a": None}, {"k": "m1", "a": 1}]}
    for d1 in list(_depth1({"k": "missing"})) + [{"k": "m1", "a": None}, {"k": "m2", "inner": {"k": "m1", "a": None}, "items": []}]:
        yield from _depth1(d1)


def enumerate_cases(tier):
    shapes = list(grid_shapes())
    oplists = [[o] for o in OPS] + [list(p) for p in itertools.product(OPS, repeat=2)]
    for s in shapes:
        for ops in oplists:
            yield {"shape": s, "ops": ops}


def _shape_strategy():
    leaf = st.one_of(
        st.just({"k": "missing"}),
        st.just({"k": "missing"}),
        st.just({"k": "call"}),
        st.builds(lambda i: {"k": "like", "i": i}, st.integers(0, len(LIKES) - 1)),
        st.builds(lambda a, nd: {"k": "m1", "a": a, "nd": nd}, st.one_of(st.none(), st.integers(-3, 3)), st.booleans()),
    )
    m1 = st.builds(lambda a, nd: {"k": "m1", "a": a, "nd": nd}, st.one_of(st.none(), st.integers(-3, 3)), st.booleans())

    def extend(children):
        return st.one_of(
            st.builds(lambda xs: {"k": "list", "items": xs}, st.lists(children, max_size=3)),
            st.builds(lambda xs: {"k": "tuple", "items": xs}, st.lists(children, max_size=3)),
            st.builds(lambda xs: {"k": "dict", "items": xs}, st.lists(children, max_size=3)),
            st.builds(lambda v: {"k": "dc", "v": v}, children),
            st.builds(lambda v: {"k": "m3", "payload": v}, children),
            st.builds(
                lambda inner, items: {"k": "m2", "inner": inner, "items": items},
                st.one_of(st.none(), m1),
                st.lists(m1, max_size=2),
            ),
        )

    return st.recursive(leaf, extend, max_leaves=8)


def strategy(tier):
    return st.builds(
        lambda s, ops: {"shape": s, "ops": ops},
        _shape_strategy(),
        st.lists(st.sampled_from(OPS), min_size=1, max_size=3),
    )


def budget(tier):
    return {"examples": 1500, "shards": 1} if tier == "quick" else {"examples": 12000, "shards": 16}
