"""C02 - leaving a scope restores the surrounding context on every exit path.

Case: {"body": [Op], "releases": [[t, gate]], "inject": iteration | null}
Every generated program is run once without fault and then once per loop iteration with victim.cancel() injected there."""

from __future__ import annotations

import asyncio

from hypothesis import strategies as st

from hv import conc
from hv import progs as P
from hv.core import Outcome

PID = "C02"
LEVEL = "fault_enumeration"
TECHNIQUE = "generated concurrent scope programs x exhaustive single-cancellation crash points; context-fingerprint invariant around every block"
RULE = (
    "cases are nested scope programs (async scopes with failing/suspending disposables, sync scopes, updated blocks, "
    "spawned tasks that sleep, block on gates, fail or spawn further tasks; bodies ending by return or by raising "
    "Exception / a subclass / a BaseException); each program is executed fault-free and then once per loop iteration "
    "with an external cancellation of the main task injected at that iteration; non-trivial = a block left abnormally "
    "(exception, cancellation, failed disposable or failed spawned task) while an enclosing block supplies different "
    "state; distinct = distinct program"
)
RULE += '; template: a spawned task fails early and the body fails differently a few steps later'
RULE += '; blocks whose body spawns and then fails with every exception of the family (unrenderable, attribute-rejecting, message-less ...)'
RULE += '; blocks entered inside an `except` handler of the surrounding code'
LEVEL_TEXT = (
    "Exhaustive single-fault injection per generated program: around every block the harness takes a side-effect-free "
    "context fingerprint (state per family type by identity, metrics scope, task group) before entering and in a "
    "finally after leaving, in the same task; they must be equal on every exit path. Body exceptions must reach each "
    "enclosing block as the same object when no cleanup failed."
)
LEVEL_NOTE = (
    "Trusted: virtual loop determinism; grey-box reads of MetricsContext._context / TaskGroupContext._context (if the "
    "private names disappear the fingerprint degrades to state only and says so)."
)
ASSUMPTIONS = [
    "fingerprints are taken in the harness's own finally blocks inside the task being unwound (code a user can write)",
    "exception identity is asserted only in fault-free runs where no disposable exit raised inside the block",
    "what a failed spawned task does to the body (TaskGroup cancels it) is not judged here",
]
REQUIRED_CLASSES = ["abnormal-exit-with-visible-outer-state", "cancel-injected", "disposable-failure", "spawned-task-failure", "body-raises"]


def judge(prog, run, res, out: Outcome, inject):
    tag = "cancel" if inject is not None else "nofault"
    if res["outcome"] == "hang":
        out.violate("term", f"C02.term/hang/{tag}", f"inject={inject}")
        return set()
    enters = {}
    classes = set()
    disp_exit_raise_paths = [tuple(e["path"]) for e in run.log if e["ev"] == "d_exit_raise"]
    for e in run.log:
        if e["ev"] == "block_enter":
            enters[tuple(e["path"])] = e
        elif e["ev"] == "block_exit":
            b = enters.get(tuple(e["path"]))
            if b is None:
                continue
            before, after = b["fp"], e["fp"]
            how = "normal" if e["exc"] is None else type(e["exc"]).__name__
            if e["exc"] is not None:
                outer_visible = any(v not in ("MissingContext",) and v[0] != "sentinel" for v in before["state"].values() if isinstance(v, tuple))
                if outer_visible:
                    classes.add("abnormal-exit-with-visible-outer-state")
            for part in ("state", "metrics", "group"):
                if before[part] != after[part]:
                    kindtag = f"{e['kind']}-{e.get('mode') or ''}".rstrip("-")
                    diff = (
                        {k: (before["state"][k], after["state"][k]) for k in before["state"] if before["state"][k] != after["state"][k]}
                        if part == "state"
                        else (before[part], after[part])
                    )
                    out.violate(
                        "restore",
                        f"C02.restore/{part}-not-restored/{kindtag}/left-by-{_how_class(how)}/{tag}",
                        f"block {e['path']} left by {how}: {part} before/after differ: {diff}; inject={inject}",
                    )
    if inject is None:
        # exception identity: the object raised by a body reaches every enclosing block of the same task unchanged
        exits = {tuple(e["path"]): e for e in run.log if e["ev"] == "block_exit"}
        for r in run.log:
            if r["ev"] != "raise":
                continue
            p = tuple(r["path"])
            seg_start = max([i for i, x in enumerate(p) if x == "t"] + [-1]) + 1
            for ln in range(len(p) - 1, seg_start, -1):
                anc = p[:ln]
                ex = exits.get(anc)
                if ex is None:
                    continue
                if any(dp[: len(anc)] == anc for dp in disp_exit_raise_paths):
                    break
                if any(
                    e["ev"] == "task_end"
                    and e.get("how") == "failed"
                    and e["it"] <= ex["it"]
                    and (
                        tuple(e["path"])[: len(anc)] == anc
                        or (run.owner_of.get(tuple(e["path"])) is not None and anc[: len(run.owner_of[tuple(e["path"])])] == run.owner_of[tuple(e["path"])])
                    )
                    for e in run.log
                ):
                    # a task spawned inside this block - or into the group of a scope ENCLOSING it - failed before the
                    # block was left: the task group cancels the owner, and that CANCELLATION lands wherever the owner
                    # currently is, possibly in this block's cleanup, where it replaces the body's exception (what a
                    # failed spawned task does to its owner is not judged). Anything else than a cancellation in place
                    # of the body's exception - e.g. the spawned task's own exception - is not excused by this.
                    if ex["exc"] is r["exc"] or isinstance(ex["exc"], asyncio.CancelledError):
                        out.unspecified.append("body-exception-while-spawned-task-fails")
                        break
                if ex["exc"] is not r["exc"]:
                    out.violate(
                        "identity",
                        f"C02.identity/body-exception-replaced/{ex['kind']}-{ex.get('mode')}",
                        f"raised {r['exc']!r} at {p}; block {anc} saw {ex['exc']!r}",
                    )
                    break
    if any(e["ev"] in ("d_exit_raise", "d_enter_raise") for e in run.log):
        classes.add("disposable-failure")
    if any(e["ev"] == "task_end" and e.get("how") == "failed" for e in run.log):
        classes.add("spawned-task-failure")
    if any(e["ev"] == "raise" and "t" not in tuple(e["path"]) for e in run.log):
        classes.add("body-raises")
    return classes


def _how_class(how):
    if how == "normal":
        return "return"
    if how == "CancelledError":
        return "cancellation"
    if how == "DispErr":
        return "disposable-error"
    if "Group" in how:
        return "exception-group"
    return "exception"


def run_case(case) -> Outcome:
    out = Outcome()
    rel = conc.release_plan(case, complete=True)
    run, dry = P.execute(case, releases=rel)
    classes = judge(case, run, dry, out, None)
    runs = 1
    points = [case["inject"]] if case.get("inject") is not None else range(1, dry["iterations"] + 1)
    if dry["outcome"] != "hang":
        for k in points:
            if out.violations:
                break
            run, res = P.execute(case, inject_at=k, releases=rel)
            runs += 1
            if res["injected"]:
                classes |= judge(case, run, res, out, k)
                classes.add("cancel-injected")
    out.classes = sorted(classes)
    out.counts = {"executions": runs}
    out.nontrivial = "abnormal-exit-with-visible-outer-state" in classes
    return out


def strategy(tier):
    progs = conc.program(disp_faults=True, body_raises=True)
    return st.one_of(progs, progs, progs, progs, progs, conc.failing_body_program(), conc.handler_program()).map(lambda p: {**p, "inject": None})


def budget(tier):
    return {"examples": 600, "shards": 1} if tier == "quick" else {"examples": 1500, "shards": 16}
