"""C14 - retry makes exactly the allowed attempts and reports the true last outcome.

Case: {"variant","bare","limit","catching","ncatch","delay","seq","args","kwargs"}; `seq` is the scripted outcome
of each successive invocation of the wrapped function."""

from __future__ import annotations

import asyncio
import itertools
import sys

from hypothesis import strategies as st

import time as _time

from hv import vloop
from hv.core import Outcome

_REAL_SLEEP = _time.sleep

PID = "C14"
LEVEL = "exploration"
TECHNIQUE = "scripted fault sequences (exhaustive for limit<=3, pruned for 4) against a reference scan of the outcome sequence"
RULE = (
    "cases are (sync|async, limit 1..4, catching as default/class/tuple/set of 1-2 classes, delay none/int/float/function, "
    "outcome sequence of length limit+2 over {ok, caught, sub, uncaught, cancel, base}); quick enumerates limit=1 "
    "completely and draws the rest, thorough enumerates all configurations for limit<=3 and canonical sequences for "
    "limit=4; non-trivial = at least one retried failure; distinct = distinct configuration+sequence"
)
RULE += '; an earlier complete call of the same wrapper (own outcome script) may precede the judged call'
RULE += '; one exception instance per kind may be raised again and again; the calling task may have absorbed a cancel earlier'
RULE += '; success values may be exception instances; caught exceptions may have falsy instances'
RULE += '; empty caught sets; async attempts that themselves take virtual time'
RULE += '; caught sets listing a class with one of its subclasses; the sync variant called from a coroutine'
LEVEL_TEXT = (
    "Reference scan of the scripted outcome sequence decides the number of invocations, the returned value / raised "
    "exception object (identity), and the exact list of pauses. Finite configuration space: enumerated completely for "
    "limit<=3 in the thorough tier, limit=4 with canonical suffixes; quick samples it."
)
LEVEL_NOTE = (
    "Trusted: pauses are observed by rebinding (by identity) the names bound to time.sleep / asyncio.sleep in haiway.helpers.retries plus time.sleep itself, and by "
    "virtual-clock deltas on the async path; if the names disappear only the clock deltas are used."
)
ASSUMPTIONS = [
    "limit >= 1 (the library asserts on it)",
    "delay given as bool is not generated",
    "with the default catching=Exception every Exception subclass is retryable",
]
EXHAUSTIVE_MEANS = "all (variant, catching, delay, outcome-sequence) configurations for limit<=1 (quick) / limit<=3 plus canonical limit=4 (thorough)"
REQUIRED_CLASSES = ["retried-failure", "delay-function", "delay-int", "ends-with-exception-after-limit", "cancel-or-base"]

OUTCOMES = ["ok", "caught", "sub", "uncaught", "cancel", "base"]
# used by generated cases and a small extra enumeration only: an exception two inheritance levels below a caught class
DEEP = "deep"
DELAYS = [
    {"k": "none"},
    {"k": "int", "v": 0},
    {"k": "int", "v": 2},
    {"k": "float", "v": 0.0},
    {"k": "float", "v": 0.5},
    {"k": "fn"},
]
# "tuple_cancel": CancelledError named explicitly in the caught set - documented to be propagated anyway
# "tuple0" / "set0": an EMPTY caught set (a computed collection that came out empty) - every exception is outside it
CATCHINGS = [("default", 1), ("class", 1), ("tuple", 1), ("tuple", 2), ("set", 1), ("set", 2), ("tuple_cancel", 1), ("tuple0", 0), ("set0", 0), ("tuple_sub", 1), ("set_sub", 1)]
# "tuple_sub" / "set_sub": the caught set lists a class TOGETHER WITH one of its subclasses (LookupError, KeyError): instances of
# the broad class and of its other subclasses are still inside the caught set


class CaughtA(Exception):
    pass


class CaughtB(Exception):
    pass


class SubA(CaughtA):
    pass


class SubSubA(SubA):
    pass


class FalsySubA(CaughtA):
    """a caught failure whose INSTANCE is falsy (an error collection raised empty, a zero status): retried, paused for and
    reported like any other"""

    def __len__(self):
        return 0


class DeepUnicode(UnicodeError):  # ValueError <- UnicodeError <- DeepUnicode
    pass


class Uncaught(Exception):
    pass


class OtherBase(BaseException):
    pass


# the same roles played by BUILT-IN exception classes (their instances have no __dict__ slot for weak references, cannot
# carry arbitrary attributes in all cases, compare by identity): the most common exceptions in real code
FAMILY = {False: (CaughtA, CaughtB, SubA, Uncaught), True: (ValueError, KeyError, UnicodeError, TypeError)}


def _make_exc(kind, i, ncatch, builtin=False, falsy=False):
    caught_a, caught_b, sub_a, uncaught = FAMILY[bool(builtin)]
    if kind == "caught":
        return (caught_b if (ncatch == 2 and i % 2 == 1) else caught_a)(i)
    if kind == "sub":
        return (FalsySubA if falsy and not builtin else sub_a)(i)
    if kind == "deep":
        return (DeepUnicode if builtin else SubSubA)(i)
    if kind == "uncaught":
        return uncaught(i)
    if kind == "cancel":
        return asyncio.CancelledError(i)
    if kind == "base":
        return OtherBase(i)
    raise ValueError(kind)


def _retryable(kind, catching):
    if catching in ("tuple0", "set0"):
        return False
    if kind in ("caught", "sub", "deep"):
        return True
    if kind == "uncaught":
        return catching == "default"
    return False


def model(case):
    """-> (calls, terminal_index, retried)"""
    seq, limit = case["seq"], case["limit"]
    for i, kind in enumerate(seq):
        if kind == "ok":
            return i + 1, i
        if _retryable(kind, case["catching"]) and i < limit:
            continue
        return i + 1, i
    raise AssertionError("sequence shorter than limit+1")


def run_overlap(case) -> Outcome:
    """two overlapping calls of ONE wrapped async function, each with its own scripted outcomes: the attempts of one
    call must not be counted against (or reset by) the other"""
    from haiway import retry

    out = Outcome()
    limit = case["limit"]
    seqs = [case["seq"], case["seq2"]]
    calls = {0: [], 1: []}
    produced = {0: [], 1: []}
    results: dict = {}

    async def main(loop):
        async def fn(cid):
            i = len(calls[cid])
            calls[cid].append(loop.time())
            await asyncio.sleep(case.get("step", 0.125) * (1 + cid))  # suspends: the two calls interleave
            kind = seqs[cid][i] if i < len(seqs[cid]) else "ok"
            if kind == "ok":
                v = ("value", cid, i)
                produced[cid].append(v)
                return v
            e = _make_exc(kind, i, 1)
            produced[cid].append(e)
            raise e

        wrapped = retry(limit=limit, catching=CaughtA)(fn)

        async def one(cid):
            try:
                results[cid] = ("ret", await wrapped(cid))
            except BaseException as exc:  # noqa: BLE001
                results[cid] = ("exc", exc)

        await asyncio.gather(one(0), one(1))

    res = vloop.run(main)
    if res.outcome == "raise":
        raise res.value
    if res.outcome == "hang":
        out.violate("term", "C14.term/hang/overlap", "")
        return out
    for cid in (0, 1):
        exp_calls, term = model({"seq": seqs[cid], "limit": limit, "catching": "class"})
        if len(calls[cid]) != exp_calls:
            out.violate(
                "attempts",
                f"C14.attempts/async/overlapping-calls/{'more' if len(calls[cid]) > exp_calls else 'fewer'}",
                f"call {cid}: invocations={len(calls[cid])} expected={exp_calls} seq={seqs[cid]} (other call: {seqs[1 - cid]}) limit={limit}",
            )
            continue
        rk, rv = results[cid]
        exp_obj = produced[cid][term]
        if rv is not exp_obj:
            out.violate("outcome", "C14.outcome/async/overlapping-calls/wrong-outcome", f"call {cid}: {results[cid]!r} expected {exp_obj!r}")
    out.classes = ["overlapping-calls", "async"] + (["retried-failure"] if any(len(v) > 1 for v in calls.values()) else [])
    out.nontrivial = any(len(v) > 1 for v in calls.values())
    return out


def run_case(case) -> Outcome:
    import haiway.helpers.retries as R
    from haiway import retry

    if case.get("seq2") is not None:
        return run_overlap(case)
    out = Outcome()
    limit = 1 if case["bare"] else case["limit"]
    case = dict(case, limit=limit)
    if case["bare"]:
        case["catching"], case["delay"] = "default", {"k": "none"}
    seq = case["seq"]
    ncatch = case["ncatch"]
    calls: list = []
    produced: list = []
    delay_log: list = []
    args = tuple(case["args"])
    kwargs = dict(case["kwargs"])
    clock = {"now": lambda: 0.0}

    # "warm": an earlier, complete call of the SAME wrapper (its own outcome sequence) - every call counts its own attempts
    # and asks the delay function itself
    phase = {"seq": case.get("warm") or seq}
    shared: dict = {}

    def end_warm_up():
        phase["seq"] = seq
        for lst in (calls, produced, delay_log, pauses, starts):
            lst.clear()

    starts: list = []

    def behave(a, kw):
        i = len(calls)
        calls.append((a, kw, clock["now"]()))
        cur = phase["seq"]
        kind = cur[i] if i < len(cur) else "ok"
        if kind == "ok":
            # "ok_exc": the function's SUCCESS value is an exception instance (returned, not raised): a result like any other
            v = ValueError(("a returned value", i)) if case.get("ok_exc") else ("value", i)
            produced.append(v)
            return v
        if case.get("shared_exc"):
            # the function fails with ONE pre-built instance per kind of failure (a stored error, an already failed future's
            # exception) - in every attempt and in every call: each call still makes its own attempts
            if kind not in shared:
                shared[kind] = _make_exc(kind, 0, ncatch, case.get("builtin"), case.get("falsy_exc"))
            e = shared[kind]
        else:
            e = _make_exc(kind, i, ncatch, case.get("builtin"), case.get("falsy_exc"))
        produced.append(e)
        raise e

    def delay_fn(n, exc):
        delay_log.append((n, exc))
        return 0.25 * n

    dk = case["delay"]
    if dk["k"] == "none":
        delay = None
    elif dk["k"] in ("int", "float"):
        delay = int(dk["v"]) if dk["k"] == "int" else float(dk["v"])
    else:
        delay = delay_fn
    fam = FAMILY[bool(case.get("builtin"))]
    classes_ = list(fam[:2])[:ncatch]
    if case["catching"] == "class":
        catching = fam[0]
    elif case["catching"] == "tuple":
        catching = tuple(classes_)
    elif case["catching"] == "set":
        catching = set(classes_)
    elif case["catching"] == "tuple_cancel":
        catching = (fam[0], asyncio.CancelledError)
    elif case["catching"] == "tuple_sub":
        catching = (fam[0], fam[2]) if not case.get("builtin") else (LookupError, KeyError, ValueError, UnicodeError)
    elif case["catching"] == "set_sub":
        catching = {fam[0], fam[2]} if not case.get("builtin") else {LookupError, KeyError, ValueError, UnicodeError}
    elif case["catching"] == "tuple0":
        catching = ()
    elif case["catching"] == "set0":
        catching = set()
    else:
        catching = None

    def decorate(fn):
        if case["bare"]:
            return retry(fn)
        kw = {"limit": limit, "delay": delay}
        if catching is not None:
            kw["catching"] = catching
        return retry(**kw)(fn)

    pauses: list = []
    result: dict = {}
    wall = {"dt": 0.0}
    if case["variant"] == "sync":

        def fn(*a, **kw):
            return behave(a, kw)

        wrapped = decorate(fn)
        # the blocking sleep is observed (and not slept): every name in the retries module that is bound to time.sleep
        # is rebound by identity, and time.sleep itself for a library that spells it `time.sleep(...)`
        record = lambda s: pauses.append(s)  # noqa: E731
        rebound = [(R, a, v) for a, v in list(vars(R).items()) if v is _REAL_SLEEP]
        for m_, a_, _v in rebound:
            setattr(m_, a_, record)
        _time.sleep = record
        try:
            if case.get("warm"):
                try:
                    wrapped(*args, **kwargs)
                except Exception:  # noqa: BLE001 - the warm-up call's own outcome
                    pass
                end_warm_up()
            t_wall = _time.perf_counter()

            def judged_call():
                try:
                    result["v"] = ("ret", wrapped(*args, **kwargs))
                except BaseException as exc:  # noqa: BLE001 - outcome under observation
                    result["v"] = ("exc", exc)

            if case.get("sync_in_loop"):
                # the synchronous variant is called from a coroutine (an event loop is running in this thread): same attempts,
                # same pauses - it is still the blocking helper the caller asked for
                async def from_coroutine(loop):
                    judged_call()

                vloop.run(from_coroutine)
            else:
                judged_call()
            wall["dt"] = _time.perf_counter() - t_wall
        finally:
            _time.sleep = _REAL_SLEEP
            for m_, a_, v_ in rebound:
                setattr(m_, a_, v_)
        # nothing bound to time.sleep in the module and nothing recorded: the library pauses in some other way - not observed
        observed_pauses = pauses if (rebound or pauses) else None
        if not pauses and wall["dt"] >= 0.2:
            # nothing recorded, yet the call really took time: the library pauses through something else than time.sleep -
            # unobserved (the wall clock is only ever used to EXCUSE, never to accuse; recorded pauses cost no real time)
            observed_pauses = None
        gaps = None
    else:

        dur = case.get("dur") or 0
        real_sleep = asyncio.sleep

        async def fn(*a, **kw):
            # "dur": every attempt itself takes (virtual) time before it ends: the pause is what lies between the END of an
            # attempt and the START of the next one, and it does not depend on how long the attempt took
            starts.append(clock["now"]())
            if dur:
                await real_sleep(dur)
            return behave(a, kw)

        wrapped = decorate(fn)
        a_rebound = [(a_, v_) for a_, v_ in list(vars(R).items()) if v_ is asyncio.sleep]
        saved = asyncio.sleep if a_rebound else None

        async def main(loop):
            clock["now"] = loop.time
            if saved is not None:

                async def rec_sleep(s, *a, **k):
                    pauses.append(s)
                    return await saved(s, *a, **k)

                for a_, _v in a_rebound:
                    setattr(R, a_, rec_sleep)
            try:
                if case.get("swallowed_cancel"):
                    # the calling task absorbed a cancellation request earlier (Task.cancelling() stays > 0): retries go on
                    asyncio.current_task().cancel()
                    try:
                        await asyncio.sleep(0)
                    except asyncio.CancelledError:
                        pass
                if case.get("warm"):
                    try:
                        await wrapped(*args, **kwargs)
                    except Exception:  # noqa: BLE001 - the warm-up call's own outcome
                        pass
                    end_warm_up()
                try:
                    if case.get("in_scope"):
                        # the call is made from inside a scope (retries log through the context there)
                        from haiway import ctx

                        async with ctx.scope("c14"):
                            return ("ret", await wrapped(*args, **kwargs))
                    return ("ret", await wrapped(*args, **kwargs))
                except BaseException as exc:  # noqa: BLE001
                    return ("exc", exc)
            finally:
                for a_, v_ in a_rebound:
                    setattr(R, a_, v_)

        res = vloop.run(main)
        if res.outcome == "hang":
            out.violate("term", "C14.term/hang", "async retry never finished")
            return out
        if res.outcome == "raise":
            raise res.value
        result["v"] = res.value
        # a binding that exists but is not the one the library calls records nothing: then the virtual-time gaps decide alone
        observed_pauses = pauses if (saved is not None and pauses) else None
        gaps = [starts[i + 1] - calls[i][2] for i in range(len(calls) - 1)] if len(starts) >= len(calls) else None

    exp_calls, term = model(case)
    kind = seq[term]
    sig_variant = case["variant"]
    dsig = dk["k"]
    if len(calls) != exp_calls:
        out.violate(
            "attempts",
            f"C14.attempts/{sig_variant}/delay-{dsig}/{'more' if len(calls) > exp_calls else 'fewer'}",
            f"invocations={len(calls)} expected={exp_calls} seq={seq} result={result['v']!r}",
        )
    for a, kw, _ in calls:
        if a != args or kw != kwargs or any(x is not y for x, y in zip(a, args)):
            out.violate("args", f"C14.args/{sig_variant}", f"{a} {kw} vs {args} {kwargs}")
            break
    # outcome
    if len(calls) == exp_calls:
        rk, rv = result["v"]
        exp_obj = produced[term] if term < len(produced) else None
        if kind == "ok":
            if rk != "ret" or rv is not exp_obj:
                out.violate("outcome", f"C14.outcome/{sig_variant}/delay-{dsig}/wrong-result", f"{result['v']!r} expected {exp_obj!r}")
        else:
            if rk != "exc" or rv is not exp_obj:
                out.violate(
                    "outcome",
                    f"C14.outcome/{sig_variant}/delay-{dsig}/wrong-exception",
                    f"{result['v']!r} expected the object {exp_obj!r}",
                )
        # pauses: one per retry, none after the last attempt
        retries = exp_calls - 1
        if dk["k"] == "none":
            exp_p = []
        elif dk["k"] == "fn":
            exp_p = [0.25 * n for n in range(1, retries + 1)]
        else:
            exp_p = [dk["v"]] * retries
        if observed_pauses is not None and [float(p) for p in observed_pauses] != [float(p) for p in exp_p]:
            out.violate("pause", f"C14.pause/{sig_variant}/delay-{dsig}/wrong-pauses", f"observed={observed_pauses} expected={exp_p}")
        if gaps is not None and dk["k"] != "none":
            if [float(g) for g in gaps] != [float(p) for p in exp_p]:
                out.violate("pause", f"C14.pause/{sig_variant}/delay-{dsig}/wrong-virtual-gaps", f"gaps={gaps} expected={exp_p}")
        if gaps is not None and dk["k"] == "none" and any(g != 0 for g in gaps):
            out.violate("pause", f"C14.pause/{sig_variant}/delay-none/time-passed", f"gaps={gaps}")
        if dk["k"] == "fn":
            exp_log = [(n, produced[n - 1]) for n in range(1, retries + 1)]
            if len(delay_log) != len(exp_log) or any(
                a[0] != b[0] or a[1] is not b[1] for a, b in zip(delay_log, exp_log)
            ):
                out.violate("pause", f"C14.pause/{sig_variant}/delay-fn/wrong-arguments", f"{delay_log!r} expected {exp_log!r}")

    classes = []
    if exp_calls > 1:
        classes.append("retried-failure")
    if dk["k"] == "fn":
        classes.append("delay-function")
    if dk["k"] == "int":
        classes.append("delay-int")
    if kind != "ok" and term == limit and _retryable(kind, case["catching"]):
        classes.append("ends-with-exception-after-limit")
    if kind in ("cancel", "base"):
        classes.append("cancel-or-base")
    if case["variant"] == "async":
        classes.append("async")
    if case.get("warm"):
        classes.append("earlier-call-of-the-same-wrapper")
    if case.get("shared_exc"):
        classes.append("one-exception-instance-raised-again-and-again")
    if case.get("swallowed_cancel") and case["variant"] == "async":
        classes.append("calling-task-absorbed-a-cancel-earlier")
    out.classes = classes
    out.nontrivial = exp_calls > 1
    return out


def _case(variant, bare, limit, catching, ncatch, delay, seq, args=(1, "a"), kwargs=None):
    return {
        "variant": variant,
        "bare": bare,
        "limit": limit,
        "catching": catching,
        "ncatch": ncatch,
        "delay": delay,
        "seq": list(seq),
        "args": list(args),
        "kwargs": kwargs if kwargs is not None else {"k": 2},
    }


def _canonical(seq, limit, catching):
    """sequence whose suffix after the model's terminal index is fixed (extra calls are caught by the call count)"""
    c = {"seq": list(seq), "limit": limit, "catching": catching}
    _, term = model(c)
    return all(s == "uncaught" for s in seq[term + 1 :])


def enumerate_cases(tier):
    limits = [1] if tier == "quick" else [1, 2, 3, 4]
    for limit in limits:
        for seq in itertools.product(OUTCOMES, repeat=limit + 2):
            for catching, ncatch in CATCHINGS:
                if limit == 4 and not _canonical(seq, limit, catching):
                    continue
                for delay in DELAYS:
                    for variant in ("sync", "async"):
                        yield _case(variant, False, limit, catching, ncatch, delay, seq)
    for seq in itertools.product(OUTCOMES, repeat=3):
        for variant in ("sync", "async"):
            yield _case(variant, True, 1, "default", 1, {"k": "none"}, seq)
    # an exception two inheritance levels below a caught class, for every caught-set form
    for seq in itertools.product(["ok", "caught", DEEP, "uncaught"], repeat=3):
        if DEEP not in seq:
            continue
        for catching, ncatch in CATCHINGS:
            for variant in ("sync", "async"):
                for builtin in (False, True):
                    yield {**_case(variant, False, 1, catching, ncatch, {"k": "none"}, seq), "builtin": builtin}
    # built-in exception classes in every role (limit 1, every outcome script, every caught-set form and delay kind)
    for seq in itertools.product(OUTCOMES, repeat=3):
        for catching, ncatch in (("default", 1), ("class", 1), ("tuple", 2), ("set", 2)):
            for delay in ({"k": "none"}, {"k": "float", "v": 0.5}, {"k": "fn"}):
                for variant in ("sync", "async"):
                    yield {**_case(variant, False, 1, catching, ncatch, delay, seq), "builtin": True}
    # an earlier complete call of the same wrapper (limit 2, every short warm-up script x every outcome script)
    for warm in (["ok"], ["caught", "ok"], ["caught", "caught"], ["uncaught"]):
        for seq in itertools.product(["ok", "caught", "uncaught"], repeat=3):
            for delay in ({"k": "none"}, {"k": "float", "v": 0.5}, {"k": "fn"}):
                for variant in ("sync", "async"):
                    yield {**_case(variant, False, 2, "class", 1, delay, [*seq, "ok"]), "warm": warm}
                    if delay["k"] == "none":
                        yield {**_case(variant, False, 2, "class", 1, delay, [*seq, "ok"]), "warm": warm, "shared_exc": True}
    for seq in itertools.product(["ok", "caught", "sub", "uncaught"], repeat=3):
        yield {**_case("async", False, 2, "class", 1, {"k": "none"}, [*seq, "ok"]), "swallowed_cancel": True}
        for variant in ("sync", "async"):
            for delay in ({"k": "none"}, {"k": "float", "v": 0.5}, {"k": "fn"}):
                yield {**_case(variant, False, 2, "class", 1, delay, [*seq, "ok"]), "falsy_exc": True, "ok_exc": True}
    # two overlapping calls of one wrapped async function (limit 1..2, every pair of short outcome scripts)
    short = ["ok", "caught", "uncaught"]
    for limit in (1, 2):
        for s1 in itertools.product(short, repeat=limit + 1):
            for s2 in itertools.product(short, repeat=limit + 1):
                c = _case("async", False, limit, "class", 1, {"k": "none"}, [*s1, "ok"])
                c["seq2"] = [*s2, "ok"]
                yield c


def strategy(tier):
    @st.composite
    def cases(draw):
        limit = draw(st.integers(1, 4))
        # bias towards long runs of retryable failures so that the limit is actually reached
        outcome = st.sampled_from(OUTCOMES + ["caught", "caught", "sub", "caught", DEEP])
        seq = draw(st.lists(outcome, min_size=limit + 2, max_size=limit + 2))
        catching, ncatch = draw(st.sampled_from(CATCHINGS))
        args = draw(st.lists(st.one_of(st.integers(-2, 2), st.text(max_size=2), st.none()), max_size=3))
        kwargs = draw(st.dictionaries(st.sampled_from(["k", "x", "y"]), st.integers(0, 3), max_size=2))
        builtin = draw(st.sampled_from([False, False, True]))
        warm = draw(st.one_of(st.none(), st.none(), st.lists(st.sampled_from(["caught", "caught", "sub", "ok", "uncaught"]), min_size=1, max_size=limit + 1)))
        return {"builtin": builtin, "warm": warm, "in_scope": draw(st.integers(0, 2)) == 0, "shared_exc": draw(st.integers(0, 3)) == 0, "swallowed_cancel": draw(st.integers(0, 4)) == 0, "falsy_exc": draw(st.integers(0, 3)) == 0, "ok_exc": draw(st.integers(0, 3)) == 0, "dur": draw(st.sampled_from([0, 0, 0.125, 0.5, 3])), "sync_in_loop": draw(st.booleans()), **_case(
            draw(st.sampled_from(["sync", "async"])),
            draw(st.booleans()) and draw(st.booleans()),
            limit,
            catching,
            ncatch,
            draw(st.sampled_from(DELAYS)),
            seq,
            args,
            kwargs,
        )}

    return cases()


def budget(tier):
    return {"examples": 2500, "shards": 1} if tier == "quick" else {"examples": 4000, "shards": 16}
