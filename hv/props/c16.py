"""C16 - timeout calls always terminate with the right outcome and leave nothing running.

Case: {"d": duration, "steps": k, "outcome": kind, "e": extra, "tau": timeout, "c": cancel-time|null}
(all times in virtual seconds, multiples of 1/8)."""

from __future__ import annotations

import asyncio
import itertools

from hypothesis import strategies as st

from hv import vloop
from hv.core import Outcome

PID = "C16"
LEVEL = "fault_enumeration"
TECHNIQUE = "exhaustive (duration x outcome x timeout x caller-cancel time) grid in exact virtual time against a case-analysis oracle; hang = loop quiescence"
RULE = (
    "cases are (function duration d, suspension steps, outcome in {value, exc, base, selfcancel_raise, selfcancel_task, "
    "ignore-first-cancel}, timeout tau, caller cancellation time c or none); the integer grid d in 0..5, tau in 1..5, "
    "c in {none,0..6} x 6 outcomes is enumerated completely, multi-step durations, dyadic times and calls starting at "
    "non-round absolute loop times are generated; "
    "non-trivial = anything but value-before-deadline-without-cancel; distinct = distinct tuple"
)
RULE += '; the function may raise an Exception whose instance is falsy'
RULE += "; built-in exception classes (InvalidStateError, RuntimeError, LookupError, AssertionError ...) as the function's outcome"
RULE += '; the decorated function may have been used under another event loop before; the callable may be a functools.partial or an object with an async __call__'
RULE += '; returned exception instances; the calling task may have absorbed a cancel earlier'
RULE += "; an earlier complete call from the same task; a busy loop turn after the function's last step (virtual CPU time)"
RULE += "; a busy loop turn between the call and the function's first step; calls made first and awaited later / never"
LEVEL_TEXT = (
    "Single-fault enumeration: the caller cancellation is injected at every instant of a complete integer time grid "
    "around the function's end and the deadline, for every outcome kind; the oracle is a case analysis on the earliest "
    "of (d, tau, c). Termination is decided exactly: the virtual loop reports quiescence with an unfinished caller."
)
LEVEL_NOTE = (
    "Trusted: virtual-time loop (timers fire in time order; equal-time order unspecified, so exact ties accept either "
    "tied outcome). KeyboardInterrupt/SystemExit are not generated."
)
ASSUMPTIONS = [
    "exact ties (d==tau, c==tau, c==d) accept either tied outcome; termination and cleanup are still required",
    "a function that ignores the first cancellation finishes e ticks later by itself",
]
EXHAUSTIVE_MEANS = "integer grid d in 0..5 x tau in 0..5 x c in {none, 0..6} x 6 outcome kinds, single-step duration; a caller cancellation at every loop iteration for d<=2, tau<=3; a half-integer grid started at two non-round absolute times"
REQUIRED_CLASSES = ["timeout-first", "cancel-first", "function-first", "tie", "function-ends-cancelled-or-base"]

KINDS = ["value", "exc", "base", "selfcancel_raise", "selfcancel_task", "ignore"]
# outcome kinds used by generated cases only (the enumerated grids keep the six above)
# "exc_b_<Name>": the function raises a BUILT-IN exception class the wrapper's own plumbing also meets (futures, iterators,
# assertions): it is the function's outcome like any other exception
_BUILTIN_EXC = {
    "InvalidStateError": asyncio.InvalidStateError,
    "RuntimeError": RuntimeError,
    "StopAsyncIteration": StopAsyncIteration,
    "LookupError": LookupError,
    "AssertionError": AssertionError,
    "AttributeError": AttributeError,
}
# "value_exc": the function RETURNS an exception instance (a result-or-error record): a value like any other
EXTRA_KINDS = ["exc_timeout", "exc_falsy", "value_exc", "value_cancelled", *(f"exc_b_{n}" for n in _BUILTIN_EXC)]


class FnTimeout(TimeoutError):
    """the wrapped function's OWN timeout error (a connect / read timeout of its own): not the wrapper's deadline"""


class FnErr(Exception):
    pass


class FnBase(BaseException):
    pass


class FnFalsy(Exception):
    """an exception whose instances are falsy (`__len__` of an error collection, `__bool__` of a result-like error)"""

    def __bool__(self):
        return False


def run_case(case) -> Outcome:
    if case.get("c_iter") is None:
        return _run_timed(case, None)[0]
    # crash points: the caller is cancelled at EVERY loop iteration of the fault-free run (also in the single
    # iteration between the completion of the internal future and the caller's wake-up, which no timer can hit)
    base = dict(case, c=None)
    out, iterations = _run_timed(base, None)
    runs = 1
    points = range(1, iterations + 1) if case["c_iter"] == "all" else [case["c_iter"]]
    for k in points:
        if out.violations:
            break
        o2, _ = _run_timed(base, k)
        runs += 1
        out.violations.extend(o2.violations)
        out.classes = sorted(set(out.classes) | set(o2.classes) | {"cancel-at-iteration"})
    out.counts = {"executions": runs}
    out.nontrivial = True
    return out


def _run_timed(case, inject_iter):
    from haiway import timeout

    out = Outcome()
    d, tau, c, kind, e = case["d"], case["tau"], case["c"], case["outcome"], case.get("e", 2)
    steps = max(1, case.get("steps", 1))
    bg = case.get("bg")  # {"lead": the background call starts this much earlier, "d": its duration, "out": "value"|"exc"}
    t0 = case.get("t0", 0)  # the call starts at absolute time t0 (a dyadic fraction: the loop clock is not at a round value)
    flags: dict = {"started": None, "cancel_seen": None, "ended": None, "cancel_count": 0}
    holder: dict = {}
    val = object()
    err = FnErr("fn")
    base = FnBase("fn")
    own_timeout = FnTimeout("fn's own timeout")
    falsy = FnFalsy("fn")
    builtin_exc = _BUILTIN_EXC[kind[6:]]("fn") if kind.startswith("exc_b_") else None
    if kind == "value_exc":
        val = ValueError("returned, not raised")
    elif kind == "value_cancelled":
        val = asyncio.CancelledError("returned, not raised")
    t_end = max(d, tau, c or 0, (case.get("bg") or {}).get("d", 0)) + e + 3

    async def main(loop):
        async def fn(x, *, k):
            if x == "warm":
                return "warm"  # the earlier call under ANOTHER event loop (see "second_loop")
            if x == "bg":
                # an unrelated, overlapping call of the SAME decorated function: it ends (by itself) while the judged
                # call is in flight and must not touch the judged call's deadline, outcome or cancellation
                await asyncio.sleep(bg["d"])
                if bg.get("out") == "exc":
                    raise FnErr("bg")
                return "bg"
            flags["started"] = asyncio.get_running_loop().time()
            flags["args"] = (x, k)
            try:
                try:
                    if d == 0:
                        await asyncio.sleep(0)
                    else:
                        for _ in range(steps):
                            await asyncio.sleep(d / steps)
                except asyncio.CancelledError:
                    flags["cancel_seen"] = asyncio.get_running_loop().time() - holder.get("origin", t0)
                    flags["cancel_count"] += 1
                    if kind == "ignore":
                        await asyncio.sleep(e)
                        return val
                    raise
                if case.get("busy"):
                    # the event loop is BUSY right after the function's last step (some other ready callback takes `busy`
                    # seconds of the loop's clock): the function has finished before the deadline, only the news arrives late
                    cur = asyncio.get_running_loop()
                    cur.call_soon(lambda: setattr(cur, "_vtime", cur._vtime + case["busy"]))
                if kind in ("value", "ignore", "value_exc", "value_cancelled"):
                    return val
                if kind == "exc":
                    raise err
                if kind == "exc_timeout":
                    raise own_timeout
                if kind == "exc_falsy":
                    raise falsy
                if builtin_exc is not None:
                    raise builtin_exc
                if kind == "base":
                    raise base
                if kind == "selfcancel_raise":
                    raise asyncio.CancelledError("self")
                if kind == "selfcancel_task":
                    asyncio.current_task().cancel()
                    await asyncio.sleep(0)
                    raise AssertionError("unreachable")
            finally:
                flags["ended"] = asyncio.get_running_loop().time()

        # "second_loop": the decorated function was already used - to completion - under another event loop (a second
        # asyncio.run, a per-test loop); "callable": what is decorated is not a plain function (a functools.partial of one,
        # an object with an async __call__) - both are the same wrapped function as far as the caller can tell
        if "wrapped" in holder:
            wrapped = holder["wrapped"]
        else:
            target = fn
            if case.get("callable") == "partial":
                import functools

                async def fn3(_extra, x, *, k):
                    return await fn(x, k=k)

                target = functools.partial(fn3, "extra")
            elif case.get("callable") == "object":

                class _Callable:
                    async def __call__(self, x, *, k):
                        return await fn(x, k=k)

                target = _Callable()
            wrapped = holder["wrapped"] = timeout(tau)(target)
        if holder.get("warming"):
            return await wrapped("warm", k=8)
        obs: dict = {}

        async def caller():
            if case.get("swallowed_cancel"):
                # the calling task absorbed a cancellation request earlier (Task.cancelling() stays > 0): the call is made
                # and judged like any other
                asyncio.current_task().cancel()
                try:
                    await asyncio.sleep(0)
                except asyncio.CancelledError:
                    pass
            if case.get("earlier"):
                # an EARLIER, complete call of the same wrapper from this very task, some time ago: its deadline belongs to
                # it alone and passes while the judged call is running
                try:
                    await wrapped("warm", k=8)
                except TimeoutError:
                    pass  # (a zero timeout, rightly)
                await asyncio.sleep(case["earlier"])
            coro = None
            if case.get("deferred") is not None:
                # the call is MADE now and awaited later (calls collected first, a call handed over to somebody else): making
                # it starts nothing - the function starts, and its deadline counts, from the moment the call is awaited
                coro = wrapped(7, k=8)
                await asyncio.sleep(case["deferred"])
                if case.get("never_awaited") == "task":
                    handed = asyncio.get_running_loop().create_task(coro)
                    handed.cancel()  # cancelled before its first step: the call is never awaited
                    coro = None
                    await asyncio.sleep(case["d"] + 1)
                    return ("never", None)
                if case.get("never_awaited"):
                    if hasattr(coro, "close"):
                        coro.close()  # given up (what a cancelled caller's clean-up does to a call it never awaited)
                    coro = None
                    await asyncio.sleep(case["d"] + 1)
                    return ("never", None)
            if case.get("swallowed_cancel") or case.get("earlier") or case.get("deferred") is not None:
                holder["danced"].set_result(None)
                await holder["go"]  # the judged call (and the generated cancellation of it) starts from here
            if case.get("pre_busy"):
                # a callback that is ALREADY queued when the call is made keeps the loop busy for `pre_busy` (virtual CPU
                # time) before the function's first step: the deadline counts from the call, not from that first step
                cur = asyncio.get_running_loop()
                cur.call_soon(lambda: setattr(cur, "_vtime", cur._vtime + case["pre_busy"]))
            if coro is not None:
                try:
                    return ("ret", await coro)
                except BaseException as exc:  # noqa: BLE001 - the observation
                    return ("exc", exc)
            try:
                if case.get("in_scope"):
                    # the call is made from inside a scope (the library's normal habitat): same outcomes
                    from haiway import ctx

                    async with ctx.scope("c16"):
                        return ("ret", await wrapped(7, k=8))
                return ("ret", await wrapped(7, k=8))
            except BaseException as exc:  # noqa: BLE001 - the observation
                return ("exc", exc)

        if t0:
            await asyncio.sleep(t0)
        if bg is not None:
            # the background call starts `lead` before the judged one (t0 is the judged call's start)

            async def bg_caller():
                try:
                    obs["bg"] = ("ret", await wrapped("bg", k=8))
                except BaseException as exc:  # noqa: BLE001 - the observation
                    obs["bg"] = ("exc", exc)

            bg_task = loop.create_task(bg_caller())
            await asyncio.sleep(bg["lead"])
        pre = bool(case.get("swallowed_cancel") or case.get("earlier") or (case.get("deferred") is not None and not case.get("never_awaited")))
        if case.get("never_awaited"):
            holder["danced"], holder["go"] = loop.create_future(), loop.create_future()
        if pre:
            holder["danced"], holder["go"] = loop.create_future(), loop.create_future()
        task = loop.create_task(caller())
        if pre:
            await holder["danced"]
            holder["go"].set_result(None)
        origin = loop.time() if pre else t0 + (bg["lead"] if bg is not None else 0)  # absolute start time of the judged call
        task.add_done_callback(lambda t: obs.setdefault("t", loop.time() - origin))
        holder["task"] = task
        holder["origin"] = origin
        if c is not None:
            loop.call_at(origin + c, task.cancel)
        await asyncio.sleep(t_end)
        obs["done"] = task.done()
        if task.done():
            obs["result"] = ("exc", asyncio.CancelledError()) if task.cancelled() else task.result()
        else:
            task.cancel()
        obs["fn_tasks_alive"] = [
            t for t in asyncio.all_tasks(loop) if t is not asyncio.current_task() and t is not task and not t.done()
        ]
        return obs

    hooks = {}
    if inject_iter is not None:

        def hook(loop):
            t = holder.get("task")
            holder["injected"] = t is not None and not t.done()
            if holder["injected"]:
                t.cancel()

        hooks[inject_iter] = hook
    if case.get("second_loop"):
        holder["warming"] = True
        warm = vloop.run(main)
        holder["warming"] = False
        # its own outcome is not judged here (with a zero timeout it times out, rightly): only that it ends
        if warm.outcome == "hang":
            out.violate("term", f"C16.term/earlier-call-under-another-loop-never-finished/{kind}", "")
            return out, 0
    res = vloop.run(main, hooks=hooks)
    if res.outcome == "raise":
        raise res.value
    if res.outcome == "hang":
        out.violate("term", f"C16.term/driver-hang/{kind}", "loop quiescent before driver deadline")
        return out, res.iterations
    obs = res.value
    if inject_iter is not None:
        # asyncio delivers a cancellation to any task that is not done: the caller must END CANCELLED
        if holder.get("injected"):
            if not obs["done"]:
                out.violate("term", f"C16.term/caller-never-finishes/{kind}/cancel-at-iteration", f"iteration {inject_iter}; flags={flags}")
            else:
                rk, rv = obs["result"]
                if not (rk == "exc" and isinstance(rv, asyncio.CancelledError)):
                    out.violate(
                        "cancel",
                        f"C16.cancel/caller-cancellation-not-propagated/{kind}",
                        f"caller cancelled at loop iteration {inject_iter} while not done; it ended with {obs['result']!r}; case={case}",
                    )
            if flags["started"] is not None and flags["ended"] is None:
                out.violate("cleanup", f"C16.cleanup/function-still-running/{kind}/cancel-at-iteration", f"{flags}")
            if obs["fn_tasks_alive"]:
                out.violate("cleanup", f"C16.cleanup/tasks-left-running/{kind}/cancel-at-iteration", repr(obs["fn_tasks_alive"])[:300])
        out.classes = ["cancel-at-iteration"]
        return out, res.iterations

    if case.get("deferred") is not None:
        if case.get("never_awaited"):
            # the caller gave the call up before awaiting it (what cancelling a task before its first step does to the call it
            # was handed): the function never started, or it was cancelled - it must not run on with nobody waiting for it
            if flags["started"] is not None and flags["cancel_seen"] is None:
                out.violate("cleanup", f"C16.cleanup/function-ran-on-although-the-call-was-given-up-before-it-was-awaited/{kind}", f"{flags}; case={case}")
            out.classes = ["call-made-but-never-awaited"]
            out.nontrivial = True
            return out, res.iterations
        if flags["started"] is not None and flags["started"] < holder.get("origin", 0):
            # a wrapper that starts the function when the call is MADE: which instant the deadline counts from is not stated
            out.unspecified.append("function-started-before-the-call-was-awaited")
            return out, res.iterations
    # which branches are admissible: earliest of (c, tau, d); ties admit all tied
    events = {"tau": tau, "d": d}
    if case.get("pre_busy"):
        # the function starts (and the loop can look at its timers again) only after the busy turn
        # (a wrapper may start the function within the call or in a task's first step after the busy turn: the observed start
        # of the function decides when it finishes, the deadline counts from the call either way)
        began = (flags["started"] - holder.get("origin", t0)) if flags["started"] is not None else case["pre_busy"]
        events = {"tau": max(tau, case["pre_busy"]), "d": max(began + d, case["pre_busy"])}
        if events["tau"] == events["d"] or c is not None or d == 0:
            out.unspecified.append("pre-busy-tie")
            return out, res.iterations
    if c is not None:
        events["c"] = c
    first = min(events.values())
    tied = sorted(k for k, v in events.items() if v == first)
    sig_kind = kind

    if not obs["done"]:
        out.violate(
            "term",
            f"C16.term/caller-never-finishes/{sig_kind}/first-{'+'.join(tied)}",
            f"caller still waiting at t={t_end}; flags={flags}",
        )
    else:
        rk, rv = obs["result"]
        t = obs["t"]
        if case.get("busy") and tied == ["d"]:
            t -= case["busy"]  # delivered one busy loop turn after the function finished (at d)
        ok = False
        expected = []
        for br in tied:
            if br == "c":
                expected.append(("CancelledError", first))
                if rk == "exc" and isinstance(rv, asyncio.CancelledError) and t == first:
                    ok = True
            elif br == "tau":
                expected.append(("TimeoutError", first))
                if rk == "exc" and isinstance(rv, TimeoutError) and t == first:
                    ok = True
            else:  # the function's own outcome at time d
                if kind in ("value", "ignore", "value_exc", "value_cancelled"):
                    expected.append(("value", first))
                    if rk == "ret" and rv is val and t == first:
                        ok = True
                elif kind == "exc":
                    expected.append(("FnErr", first))
                    if rk == "exc" and rv is err and t == first:
                        ok = True
                elif kind == "exc_timeout":
                    expected.append(("FnTimeout (the function's own object)", first))
                    if rk == "exc" and rv is own_timeout and t == first:
                        ok = True
                elif builtin_exc is not None:
                    expected.append((f"{type(builtin_exc).__name__} (the function's own object)", first))
                    if rk == "exc" and rv is builtin_exc and t == first:
                        ok = True
                elif kind == "exc_falsy":
                    expected.append(("FnFalsy (the function's own object)", first))
                    if rk == "exc" and rv is falsy and t == first:
                        ok = True
                elif kind == "base":
                    expected.append(("FnBase", first))
                    if rk == "exc" and rv is base and t == first:
                        ok = True
                else:
                    expected.append(("CancelledError", first))
                    if rk == "exc" and isinstance(rv, asyncio.CancelledError) and t == first:
                        ok = True
        if not ok:
            got = (type(rv).__name__ if rk == "exc" else "value", t)
            if rk == "exc" and isinstance(rv, TimeoutError) and t != first:
                symptom = "timeout-at-wrong-time"
            elif t != first and got[0] in [x[0] for x in expected]:
                symptom = "right-outcome-wrong-time"
            else:
                symptom = "wrong-outcome"
            out.violate(
                "outcome",
                f"C16.outcome/{symptom}/{sig_kind}/first-{'+'.join(tied)}",
                f"got {got} expected one of {expected}; case={case}",
            )
    # the wrapped function: must have been asked to cancel when it lost the race; nothing left running
    if flags["started"] is not None and "d" not in tied and kind != "ignore":
        if flags["cancel_seen"] is None:
            out.violate("cleanup", f"C16.cleanup/function-not-cancelled/{sig_kind}/first-{'+'.join(tied)}", f"{flags}")
        elif flags["cancel_seen"] != first:
            out.violate("cleanup", f"C16.cleanup/function-cancelled-late/{sig_kind}", f"{flags} first={first}")
    if flags["started"] is not None and "d" not in tied and kind == "ignore" and flags["cancel_seen"] != first:
        out.violate("cleanup", f"C16.cleanup/function-not-cancelled/{sig_kind}/first-{'+'.join(tied)}", f"{flags}")
    if flags["started"] is not None and flags["ended"] is None:
        out.violate("cleanup", f"C16.cleanup/function-still-running/{sig_kind}", f"{flags}")
    if obs["fn_tasks_alive"]:
        out.violate("cleanup", f"C16.cleanup/tasks-left-running/{sig_kind}", repr(obs["fn_tasks_alive"])[:300])
    # duration == timeout: either branch is admissible. Whether a function that reaches its end at the very deadline still
    # observes the cancellation is NOT judged: the unchanged library itself reports TimeoutError for timeout 0 / duration 0
    # while the function ran to its end (tried as a rule in round 9, withdrawn as over-reach)
    if bg is not None:
        # the overlapping call has its own, independent outcome
        want = ("TimeoutError",) if bg["d"] > tau else (("FnErr",) if bg.get("out") == "exc" else ("bg",))
        got_bg = obs.get("bg")
        got_name = None if got_bg is None else (got_bg[1] if got_bg[0] == "ret" else type(got_bg[1]).__name__)
        if bg["d"] != tau and got_name not in want:
            out.violate("outcome", f"C16.outcome/overlapping-call-disturbed/{sig_kind}", f"background call (d={bg['d']}, tau={tau}) ended with {got_bg!r}, expected {want}")
    if flags.get("args") not in (None, (7, 8)):
        out.violate("outcome", "C16.outcome/arguments-changed", repr(flags.get("args")))
    if res.errors:
        out.violate(
            "cleanup",
            f"C16.cleanup/loop-error/{sig_kind}",
            "; ".join(f"{x.get('message')}: {x.get('exception')!r}" for x in res.errors)[:600],
        )
    classes = []
    if len(tied) > 1:
        classes.append("tie")
    classes.append({"c": "cancel-first", "tau": "timeout-first", "d": "function-first"}[tied[0]] if len(tied) == 1 else "tie")
    if kind in ("base", "selfcancel_raise", "selfcancel_task") and "d" in tied:
        classes.append("function-ends-cancelled-or-base")
    if kind == "ignore":
        classes.append("ignores-first-cancel")
    out.classes = sorted(set(classes))
    out.nontrivial = not (kind == "value" and tied == ["d"] and c is None)
    return out, res.iterations


def enumerate_cases(tier):
    for d, tau, c, kind in itertools.product(range(0, 6), range(0, 6), [None] + list(range(0, 7)), KINDS):
        yield {"d": d, "steps": 1, "outcome": kind, "e": 2, "tau": tau, "c": c}
    for d, tau, kind in itertools.product([0, 1, 2], [0, 1, 2, 3], KINDS):
        yield {"d": d, "steps": 1, "outcome": kind, "e": 1, "tau": tau, "c": None, "c_iter": "all"}
    # the same race with the call starting at absolute times that are not round numbers (nothing may depend on where the
    # loop clock stands): half-integer durations around integer timeouts, with and without a caller cancellation
    for t0, d, tau, c, kind in itertools.product([1 / 128, 37 / 128], [0.5, 1.5, 2.5], [0.5, 1, 2], [None, 1, 2], KINDS):
        yield {"d": d, "steps": 1, "outcome": kind, "e": 2, "tau": tau, "c": c, "t0": t0}
    # calls made from inside a scope, and functions raising their OWN TimeoutError before / at / after the deadline
    for d, tau, c, kind in itertools.product([0, 1, 3], [1, 2], [None, 1], KINDS + EXTRA_KINDS):
        yield {"d": d, "steps": 1, "outcome": kind, "e": 2, "tau": tau, "c": c, "in_scope": True}
    for d, tau, c in itertools.product([0, 1, 2, 3], [1, 2, 3], [None, 0, 1, 2]):
        yield {"d": d, "steps": 1, "outcome": "exc_timeout", "e": 2, "tau": tau, "c": c}
        yield {"d": d, "steps": 1, "outcome": "exc_falsy", "e": 2, "tau": tau, "c": c}
    for d, tau, c, kind, extra in itertools.product([0, 1, 3], [2], [None, 1], KINDS, [{"second_loop": True}, {"callable": "partial"}, {"callable": "object"}]):
        yield {"d": d, "steps": 1, "outcome": kind, "e": 2, "tau": tau, "c": c, **extra}
    # the call is made first and awaited later / never
    for d, tau, x, kind in itertools.product([0.5, 1], [0.75, 1.25], [0.25, 1.0, 2.0], ["value", "exc"]):
        yield {"d": d, "steps": 1, "outcome": kind, "e": 2, "tau": tau, "c": None, "deferred": x}
        yield {"d": d, "steps": 1, "outcome": kind, "e": 2, "tau": tau, "c": None, "deferred": x, "never_awaited": True}
        yield {"d": d, "steps": 1, "outcome": kind, "e": 2, "tau": tau, "c": None, "deferred": x, "never_awaited": "task"}
        yield {"d": d, "steps": 1, "outcome": kind, "e": 2, "tau": tau, "c": 0.25, "deferred": x}
    # the loop is busy between the call and the function's first step
    for d, tau, x, kind in itertools.product([0.5, 1], [0.75, 1.25, 2.0], [0.25, 0.5, 1.0, 1.5], ["value", "exc", "ignore"]):
        yield {"d": d, "steps": 1, "outcome": kind, "e": 2, "tau": tau, "c": None, "pre_busy": x}
    # the function finishes strictly before the deadline, then the loop is busy across the deadline
    for d, tau, busy, kind in itertools.product([0.5, 1], [1.25, 1.5], [0.5, 1.0, 2.0], ["value", "exc", "base", "value_exc", "exc_timeout", "selfcancel_raise"]):
        yield {"d": d, "steps": 1, "outcome": kind, "e": 2, "tau": tau, "c": None, "busy": busy}
    for d, tau, c, kind, earlier in itertools.product([1, 3], [2], [None, 1], KINDS, [0.5, 1.5]):
        yield {"d": d, "steps": 1, "outcome": kind, "e": 2, "tau": tau, "c": c, "earlier": earlier}
    for d, tau, c, kind in itertools.product([0, 1, 3], [2], [None, 1], [*KINDS, "value_exc", "value_cancelled"]):
        yield {"d": d, "steps": 1, "outcome": kind, "e": 2, "tau": tau, "c": c, "swallowed_cancel": True}
    for d, tau, c, name in itertools.product([0, 1, 3], [2], [None, 1], list(_BUILTIN_EXC)):
        yield {"d": d, "steps": 1, "outcome": f"exc_b_{name}", "e": 2, "tau": tau, "c": c}
    # two overlapping calls of ONE decorated function: an earlier call ends (value / exception / its own timeout) while the
    # judged call is in flight
    for lead, dbg, out_bg, d, tau, c, kind in itertools.product([0.5, 1], [0.25, 1.5], ["value", "exc"], [1, 3], [1, 2], [None, 1.5], KINDS):
        yield {"d": d, "steps": 1, "outcome": kind, "e": 2, "tau": tau, "c": c, "bg": {"lead": lead, "d": lead + dbg, "out": out_bg}}
    if tier == "thorough":
        for d, tau, c, kind, steps in itertools.product([1, 2, 4], [1, 2, 3], [None, 0, 1, 2, 3, 4], KINDS, [2, 4]):
            yield {"d": d, "steps": steps, "outcome": kind, "e": 1, "tau": tau, "c": c}


def strategy(tier):
    eighth = st.integers(0, 48).map(lambda n: n / 8)

    def featured(d, kind, tau, feature, x):
        extra = {"pre_busy": {"pre_busy": x}, "deferred": {"deferred": x}, "never": {"deferred": x, "never_awaited": True}, "never_task": {"deferred": x, "never_awaited": "task"}}[feature]
        return {"d": d, "steps": 1, "outcome": kind, "e": 2, "tau": tau, "c": None, **extra}

    # loop turns that take time before the function's first step; calls that are made first and awaited later / never
    special = st.builds(
        featured,
        st.integers(1, 24).map(lambda n: n / 8),
        st.sampled_from(["value", "exc", "base", "ignore", "value_exc", "exc_timeout"]),
        st.integers(1, 24).map(lambda n: n / 8),
        st.sampled_from(["pre_busy", "pre_busy", "deferred", "never", "never_task"]),
        st.integers(1, 16).map(lambda n: n / 8),
    )
    return st.one_of(_general(eighth), _general(eighth), _general(eighth), _general(eighth), special)


def _general(eighth):
    return st.builds(
        lambda d, steps, kind, e, tau, c, t0, bg, sc, sl, cb: {"d": d, "steps": steps, "outcome": kind, "e": e, "tau": tau, "c": c, "t0": t0, "bg": bg, "in_scope": sc, "second_loop": sl, "callable": cb, "swallowed_cancel": cb is None and sl and sc, "earlier": (0.25 if steps == 2 else 1.0) if (bg is None and not sl and steps != 1) else None},
        eighth,
        st.sampled_from([1, 2, 4]),
        st.sampled_from(KINDS + EXTRA_KINDS),
        st.integers(1, 16).map(lambda n: n / 8),
        st.integers(0, 48).map(lambda n: n / 8),
        st.one_of(st.none(), eighth),
        st.sampled_from([0, 0, 1 / 128, 37 / 128, 0.375, 5 / 1024, 1.0, 100 + 1 / 64]),
        st.one_of(
            st.none(),
            st.none(),
            st.builds(lambda lead, dbg, o: {"lead": lead, "d": lead + dbg, "out": o}, st.sampled_from([0.125, 0.5, 1]), st.sampled_from([0.125, 0.25, 1.5, 2.5]), st.sampled_from(["value", "exc"])),
        ),
        st.sampled_from([False, False, True]),
        st.sampled_from([False, False, False, True]),
        st.sampled_from([None, None, None, "partial", "object"]),
    )


def budget(tier):
    return {"examples": 4000, "shards": 1} if tier == "quick" else {"examples": 6000, "shards": 16}
