"""Known findings: committed file, read-only at run time.

An entry suppresses only verdicts whose (property, signature) matches an *open* entry; signatures
name the sub-claim, the trigger and the symptom, so a different wrong behaviour is still reported.
`fixed` entries suppress nothing."""

from __future__ import annotations

import fnmatch
import json
import os

from hv.env import VERIF

PATH = os.path.join(VERIF, "known_findings.json")


def load() -> list[dict]:
    if not os.path.exists(PATH):
        return []
    with open(PATH) as f:
        doc = json.load(f)
    return doc.get("findings", [])


class Known:
    def __init__(self, pid: str) -> None:
        self.entries = [e for e in load() if e.get("property") == pid and e.get("status") == "open"]

    def match(self, signature: str) -> dict | None:
        for e in self.entries:
            if fnmatch.fnmatchcase(signature, e["signature"]):
                return e
        return None
