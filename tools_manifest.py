#!/usr/bin/env python3
"""Regenerates MANIFEST.json from the property modules that exist (keeps it valid at all times)."""
import importlib, json, os, sys
sys.path.insert(0, os.path.dirname(os.path.abspath(__file__)))
from hv import env
env.bootstrap()
props = [json.loads(l) for l in open(os.path.join(env.VERIF, "properties.jsonl"))]
checks, na = [], []
NA = json.load(open(os.path.join(env.VERIF, "not_applicable.json"))) if os.path.exists(os.path.join(env.VERIF, "not_applicable.json")) else {}
for p in props:
    pid = p["id"]
    path = os.path.join(env.VERIF, "hv", "props", pid.lower() + ".py")
    if not os.path.exists(path):
        na.append({"property_id": pid, "reason": NA.get(pid, "check not built yet in this round (generated-input search applies; see DESIGN.md section 3)")})
        continue
    mod = importlib.import_module(f"hv.props.{pid.lower()}")
    checks.append({
        "property_id": pid,
        "quick_cmd": f"./check --property {pid} --tier quick",
        "thorough_cmd": f"./check --property {pid} --tier thorough",
        "evidence_file": f"/verif/evidence/{pid}.json",
        "replay_cmd_template": f"./check --property {pid} --replay {{path}}",
        "engine": "hv",
        "level_claimed": {"category": mod.LEVEL, "text": mod.LEVEL_TEXT, "design_ref": f"DESIGN.md section 3.{int(pid[1:])}"},
        "level_note": mod.LEVEL_NOTE,
        "technique": mod.TECHNIQUE,
    })
doc = {
    "version": 1,
    "setup_cmd": "sh ./setup.sh",
    "hooks": {
        "guard": "HAIWAY_VERIF",
        "enable": "no source hooks are needed: checks import /repo/src directly (HAIWAY_SRC overrides), replace the event loop with a virtual-time loop and rebind the module-level clock names haiway imported; HAIWAY_VERIF=1 is exported by the runner for uniformity only",
        "baseline_off_cmd": "cd /repo && /venv/bin/python -m pytest -ra -q -p no:cacheprovider --timeout=900 --continue-on-collection-errors",
        "source_commits": [],
        "add_only": True,
    },
    "engines": [{"name": "hv", "path": "/verif/hv", "serves_properties": [c["property_id"] for c in checks],
                 "kind_free_text": "Hypothesis-driven property-based testing over plain-data cases (programs, schedules, crash points, histories) executed on a deterministic virtual-time asyncio loop; exhaustive enumeration where the space is finite; JSON replay files"}],
    "checks": checks,
    "not_applicable": na,
    "notes": "All checks: exit 0 held / 1 VIOLATION line / 2 harness error. VERIF_SEED seeds Hypothesis; PYTHONHASHSEED=0. Known findings: /verif/known_findings.json.",
}
json.dump(doc, open(os.path.join(env.VERIF, "MANIFEST.json"), "w"), indent=1)
print("checks:", [c["property_id"] for c in checks], "na:", len(na))
