import asyncio, sys
sys.unraisablehook=lambda *a: None
from haiway import State, ctx
async def t_check_cancel():
    ctx.cancel()
    try:
        ctx.check_cancellation(); print("check_cancellation did NOT raise after ctx.cancel(); cancelling=", asyncio.current_task().cancelling())
    except asyncio.CancelledError: print("raised")
    pass
async def t_cancel_in_disp_exit():
    class D:
        async def __aenter__(s): return None
        async def __aexit__(s,*a): await asyncio.sleep(10)
    child=None
    async def ch(): await asyncio.sleep(1000)
    async def victim():
        nonlocal child
        async with ctx.scope("v", disposables=[D()]):
            child=ctx.spawn(ch)
    t=asyncio.create_task(victim()); await asyncio.sleep(1); t.cancel()
    try: await t
    except asyncio.CancelledError: pass
    print("victim cancelled:", t.cancelled(), "child done:", child.done())
    child.cancel()
async def t_stream_unstarted():
    fired=[]
    async def gen():
        yield 1
    async with ctx.scope("p", completion=lambda m: fired.append("p")):
        s=ctx.stream(gen)
    await s.aclose()
    await asyncio.sleep(0); await asyncio.sleep(0)
    print("parent completion fired after closing unstarted stream:", fired)
async def t_nested_spawn():
    inner=[]
    async def grand(): await asyncio.sleep(5); inner.append("g")
    async def child(): inner.append(ctx.spawn(grand))
    async with ctx.scope("p"):
        with ctx.updated():
            ctx.spawn(child)
    print("grandchild done at exit:", inner[0].done())
async def t_child_fails():
    async def bad(): raise ValueError("x")
    try:
        async with ctx.scope("p"):
            ctx.spawn(bad)
            await asyncio.sleep(1)
        print("body finished")
    except BaseException as e: print("child failure → caller sees", repr(e), "cancelling=", asyncio.current_task().cancelling())
async def main():
    for f in [t_check_cancel, t_cancel_in_disp_exit, t_stream_unstarted, t_nested_spawn, t_child_fails]:
        print("==", f.__name__); await asyncio.gather(asyncio.create_task(f()), return_exceptions=True)
asyncio.run(main())
