import asyncio, selectors, heapq

class Hang(Exception): pass

class _VSelector(selectors.BaseSelector):
    """Selector that never blocks: a timeout advances virtual time instead."""
    def __init__(self, loop): self._loop=loop; self._real=selectors.DefaultSelector()
    def register(self, f, e, d=None): return self._real.register(f,e,d)
    def unregister(self, f): return self._real.unregister(f)
    def modify(self, f, e, d=None): return self._real.modify(f,e,d)
    def get_map(self): return self._real.get_map()
    def close(self): self._real.close()
    def select(self, timeout=None):
        ready = self._real.select(0)
        if ready: return ready
        if timeout is None:
            # nothing ready, nothing scheduled: the loop would block forever
            raise Hang("event loop quiescent with unfinished work")
        if timeout > 0:
            self._loop._vtime += timeout
        return []

class VLoop(asyncio.SelectorEventLoop):
    def __init__(self):
        self._vtime = 0.0
        self.iteration = 0
        self.hooks = {}
        self.errors = []
        super().__init__(selector=_VSelector(self))
        self._clock_resolution = 1e-12
        self.set_exception_handler(lambda loop, c: self.errors.append(c))
    def time(self): return self._vtime
    def _run_once(self):
        self.iteration += 1
        h = self.hooks.pop(self.iteration, None)
        if h: h()
        super()._run_once()

async def settle(limit=10000):
    loop = asyncio.get_running_loop()
    for _ in range(limit):
        await asyncio.sleep(0)
        if not loop._ready: return
    raise RuntimeError("no settle")

if __name__ == "__main__":
    import time
    loop = VLoop()
    async def main():
        t0=loop.time()
        await asyncio.sleep(100)
        print("vtime", loop.time()-t0, "iters", loop.iteration)
        f=loop.create_future()
        try: await f
        except Hang: print("hang detected")
    w=time.time()
    try: loop.run_until_complete(main())
    except Hang as e: print("Hang raised out of loop:", e)
    print("wall", time.time()-w)
    loop.close()
    # throughput
    w=time.time(); n=0
    for i in range(2000):
        loop=VLoop()
        async def m():
            ts=[asyncio.ensure_future(asyncio.sleep(0.1*i)) for i in range(5)]
            await asyncio.gather(*ts)
        loop.run_until_complete(m()); loop.close(); n+=1
    print("loops/s", n/(time.time()-w))
