import sys, types
SRC='''
from collections.abc import Sequence, Mapping, Set
from typing import Any, Literal, Self
from haiway import State, Missing, MISSING
type A1[T] = Sequence[T]
type A2 = Mapping[str, int]
class Inner[T](State):
    v: T
class Node(State):
    val: int
    nxt: "Node | None" = None
    me: Self | None = None
class C0[T](State):
    a: A1[int]
    b: A2 | Missing = MISSING
    g: Inner[T]
    h: Inner[str]
    n: Node
    t: tuple[int, str]
    tv: tuple[int, ...]
    fs: frozenset[int]
'''
m=types.ModuleType("hv_gen_0"); sys.modules["hv_gen_0"]=m
exec(compile(SRC,"<gen0>","exec"), m.__dict__)
C=m.C0[int]
x=C(a=[1], g=m.Inner[int](v=1), h=m.Inner[str](v="s"), n=m.Node(val=1, nxt=m.Node(val=2)), t=[1,"a"], tv=range(3), fs={1,2})
print(x)
for bad in [dict(h=m.Inner[int](v=1)), dict(g=m.Inner[str](v="s")), dict(t=(1,2)), dict(n=m.Node(val=1, nxt=3)) if False else dict(fs={"a"})]:
    try: x.updated(**bad); print("accepted", bad)
    except Exception as e: print("rejected", list(bad))
try: m.Node(val=1, nxt="x"); print("accepted bad nxt")
except Exception as e: print("rejected nxt")
try: m.Node(val=1, me=m.Node(val=2)); print("Self ok")
except Exception as e: print("Self rejected", repr(e)[:80])
del sys.modules["hv_gen_0"]
