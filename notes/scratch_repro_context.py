import asyncio, logging
from haiway import State, ctx, MissingContext, MissingState, ScopeMetrics
from contextlib import asynccontextmanager

class T(State):
    v: int = 0
class R(State):
    v: int

async def t_default_cache():
    async with ctx.scope("a"):
        print("explicit default before:", ctx.state(T, default=T(v=7)).v)
        ctx.state(T)
        print("explicit default after plain lookup:", ctx.state(T, default=T(v=7)).v)

class D:
    def __init__(self, name, fail_enter=False, fail_exit=False, log=None):
        self.name=name; self.fe=fail_enter; self.fx=fail_exit; self.log=log
    async def __aenter__(self):
        self.log.append(("enter", self.name))
        await asyncio.sleep(0)
        if self.fe: raise RuntimeError("enter "+self.name)
        return R(v=1)
    async def __aexit__(self, et, ev, tb):
        self.log.append(("exit", self.name, et))
        await asyncio.sleep(0)
        if self.fx: raise RuntimeError("exit "+self.name)

async def t_disposable_single_exit_error():
    log=[]
    try:
        async with ctx.scope("o", T(v=1)):
            try:
                async with ctx.scope("a", T(v=2), disposables=[D("d1", fail_exit=True, log=log)]):
                    pass
                print("single exit error swallowed; state after:", ctx.state(T).v)
            except Exception as e:
                print("single exit error raised", repr(e))
    except Exception as e: print("outer", repr(e))
    log=[]
    async with ctx.scope("o", T(v=1)):
        try:
            async with ctx.scope("a", T(v=2), disposables=[D("d1", fail_exit=True, log=log), D("d2", fail_exit=True, log=log)]):
                pass
        except BaseException as e:
            print("double exit error raised", repr(e), "state after:", ctx.state(T).v)
    log=[]
    async with ctx.scope("o", T(v=1)):
        async def probe(): return 1
        try:
            async with ctx.scope("a", T(v=2), disposables=[D("d1", log=log), D("d2", fail_enter=True, log=log)]):
                print("BODY RAN")
        except BaseException as e:
            print("enter error raised", repr(e), "state after:", ctx.state(T).v, log)
            from haiway.context.tasks import TaskGroupContext
            print("tg", TaskGroupContext._context.get())

async def t_cancel_during_exit():
    started=asyncio.Event()
    async def child():
        try:
            await asyncio.sleep(100)
        except asyncio.CancelledError:
            print("child cancelled"); raise
    async def victim():
        async with ctx.scope("v"):
            ctx.spawn(child)
            started.set()
        print("victim continued after scope although cancelled; cancelling=", asyncio.current_task().cancelling())
        return "returned"
    t=asyncio.create_task(victim())
    await started.wait()
    await asyncio.sleep(0)
    t.cancel()
    try:
        print("victim result", await t)
    except asyncio.CancelledError:
        print("victim cancelled OK")

async def t_late_child():
    fired=[]
    hold=asyncio.Event()
    async def late():
        await hold.wait()
        try:
            with ctx.scope("late", completion=lambda m: fired.append("late")):
                pass
            print("late child exit ok")
        except BaseException as e:
            print("late child exit raised", repr(e))
    met=[]
    async with ctx.scope("p", completion=lambda m: (fired.append("p"), met.append(m))):
        t=asyncio.create_task(late())
    await asyncio.sleep(0)
    print("fired", fired, met[0].is_completed)
    hold.set()
    await t
    print("fired", fired, met[0].is_completed)

async def t_trace():
    ids=[]
    async with ctx.scope("o", completion=lambda m: ids.append(m.trace_id)):
        async with ctx.scope("i", completion=lambda m: ids.append(m.trace_id)):
            pass
    await asyncio.sleep(0)
    print("trace ids equal:", ids[0]==ids[1])
    class H(logging.Handler):
        def emit(self, r):
            try: print("LOG", r.levelname, r.getMessage())
            except Exception as e: print("LOST", repr(e))
    lg=logging.getLogger("zz"); lg.addHandler(H()); lg.setLevel(logging.DEBUG); lg.propagate=False
    async with ctx.scope("100%s done %d", logger=lg):
        ctx.log_info("hello %s", "w")
        ctx.log_info("plain")

async def main():
    for f in [t_default_cache, t_disposable_single_exit_error, t_cancel_during_exit, t_late_child, t_trace]:
        print("=====", f.__name__)
        try: await f()
        except BaseException as e: print("TOP", repr(e))
asyncio.run(main())
