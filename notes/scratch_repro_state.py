import copy, pickle
from collections.abc import Mapping, Sequence
from typing import Literal
from haiway import State, MISSING, Missing
from haiway.types.missing import Missing as M

print("copy is", copy.copy(MISSING) is MISSING, "deepcopy is", copy.deepcopy(MISSING) is MISSING)
for p in range(0, pickle.HIGHEST_PROTOCOL+1):
    try:
        r = pickle.loads(pickle.dumps(MISSING, p)); print("pickle", p, r is MISSING)
    except Exception as e: print("pickle", p, "ERR", repr(e))
print("Missing() is", M() is MISSING)
try: print(hash(MISSING))
except Exception as e: print("hash", e)

class S(State):
    m: Mapping[str, int]
for v in [{}, {"a":1}, {"ab": 1}]:
    try: print("map", v, S(m=v))
    except Exception as e: print("map", v, "ERR", repr(e)[:100])
class S2(State):
    m: Mapping[str, str]
print(S2(m={"ab":"x"}))
try: print(copy.deepcopy(S(m={})))
except Exception as e: print("deepcopy map ERR", repr(e))
class S3(State):
    x: int | Missing = MISSING
s=S3()
try: print("deepcopy missing", copy.deepcopy(s))
except Exception as e: print("deepcopy missing ERR", repr(e)[:200])
print("copy missing", copy.copy(s), copy.copy(s)==s)
class L(State):
    l: Literal[1, "a"]
for v in [1, True, 1.0, "a", 2]:
    try: print("lit", repr(v), L(l=v))
    except Exception as e: print("lit", repr(v), "ERR")
class B(State):
    x: int = 1
class D(B):
    pass
print("B==D", B()==D(), "D==B", D()==B())
class G[T](State):
    v: T
print("G==G[int]", G(v=1)==G[int](v=1), "G[int]==G", G[int](v=1)==G(v=1), G[int] is G[int])
type A[T] = Sequence[T]
class P(State):
    a: A[int]
try: print("alias", P(a=["x"]))
except Exception as e: print("alias ERR", repr(e)[:100])
class Sq(State):
    s: Sequence[str]
for v in ["abc", b"ab", ["a"], ("a",), range(0)]:
    try: print("seq", repr(v), Sq(s=v))
    except Exception as e: print("seq", repr(v), "ERR")
