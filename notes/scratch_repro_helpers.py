import asyncio, time
from haiway import State, ctx, AsyncQueue, asynchronous, traced, retry, throttle, timeout, cache, wrap_async

class T(State):
    v: int = 0

async def t_throttle():
    starts=[]
    t0=time.monotonic()
    @throttle(limit=1, period=0.2)
    async def f(i): starts.append(round(time.monotonic()-t0,3)); return i
    print(await asyncio.gather(*[f(i) for i in range(4)]), starts)

async def t_timeout():
    @timeout(0.2)
    async def selfcancel():
        raise asyncio.CancelledError()
    try:
        print(await asyncio.wait_for(selfcancel(), 1))
    except BaseException as e: print("timeout self-cancel ->", repr(e))
    class BE(BaseException): pass
    @timeout(0.2)
    async def be():
        raise BE()
    try:
        print(await asyncio.wait_for(be(), 1))
    except BaseException as e: print("timeout BaseException ->", repr(e))

async def t_retry():
    calls=[]
    @retry(limit=2, delay=0)
    async def f():
        calls.append(1); raise ValueError("x")
    try: await f()
    except BaseException as e: print("retry int delay ->", repr(e), len(calls))
    calls=[]
    @retry(limit=2, delay=0)
    def g():
        calls.append(1); raise ValueError("x")
    try: g()
    except BaseException as e: print("retry sync int delay ->", repr(e), len(calls))

async def t_queue():
    q=AsyncQueue()
    got=[]
    async def consume_one():
        got.append(await q.__anext__())
    t=asyncio.create_task(consume_one())
    await asyncio.sleep(0)
    q.enqueue(1)
    t.cancel()
    try: await t
    except asyncio.CancelledError: print("consumer cancelled")
    q.enqueue(2); q.finish()
    async for x in q: got.append(x)
    print("queue got", got)

async def t_async_method():
    class C:
        @asynchronous
        def m(self, x):
            return ctx.state(T).v + x
    @asynchronous
    def f(x): return ctx.state(T).v + x
    async with ctx.scope("s", T(v=5)):
        print("func", await f(1))
        try: print("method", await C().m(1))
        except BaseException as e: print("method ->", repr(e))
        try: print("unbound", await C.m(C(), 1))
        except BaseException as e: print("unbound ->", repr(e))

async def t_traced():
    @traced
    def f(a, b=1): return a+b
    @traced
    async def g(a, b=1): return a+b
    async with ctx.scope("s"):
        print("traced pos", f(1))
        try: print("traced kw", f(1, b=2))
        except BaseException as e: print("traced kw ->", repr(e))
        try: print("traced async kw", await g(a=1))
        except BaseException as e: print("traced async kw ->", repr(e))

async def t_stream():
    async def gen():
        yield ctx.state(T).v
        yield ctx.state(T).v
    async with ctx.scope("create", T(v=1)):
        s=ctx.stream(gen)
    out=[]
    async with ctx.scope("consume", T(v=2)):
        from haiway.context.metrics import MetricsContext
        print("label before", MetricsContext._context.get().label)
        async for x in s:
            out.append(x)
            print("label between", MetricsContext._context.get().label)
        print("label after", MetricsContext._context.get().label)
    print("stream saw", out)
    # consume in other task
    async with ctx.scope("create", T(v=1)):
        s=ctx.stream(gen)
        it=s.__aiter__()
        a=await it.__anext__()
        async def other():
            try:
                return [x async for x in it]
            except BaseException as e: return repr(e)
        print("other task", a, await asyncio.create_task(other()))

async def main():
    for f in [t_throttle, t_timeout, t_retry, t_queue, t_async_method, t_traced, t_stream]:
        print("=====", f.__name__)
        try: await f()
        except BaseException as e: print("TOP", repr(e))
asyncio.run(main())
