import asyncio, sys
sys.unraisablehook=lambda *a: None
from vloop import VLoop, Hang, settle
from haiway import State, ctx
import logging; logging.getLogger().addHandler(logging.NullHandler())

class A(State):
    v: int = 0
SENT=A(v=-1)

class Disp:
    def __init__(s, log): s.log=log
    async def __aenter__(s): s.log.append("d.enter"); await asyncio.sleep(0); return None
    async def __aexit__(s,*a): s.log.append("d.exit"); await asyncio.sleep(0); await asyncio.sleep(0)

def run_case(inject_at=None):
    loop=VLoop(); asyncio.set_event_loop(loop)
    log=[]; kids=[]
    async def kid(i):
        try:
            await asyncio.sleep(3+i)   # virtual seconds
            log.append(f"kid{i}.done")
        except asyncio.CancelledError:
            log.append(f"kid{i}.cancelled"); raise
    async def victim():
        async with ctx.scope("outer", A(v=1)):
            fp0=ctx.state(A, default=SENT).v
            try:
                async with ctx.scope("inner", A(v=2), disposables=[Disp(log)]):
                    kids.append(ctx.spawn(kid,0)); kids.append(ctx.spawn(kid,1))
                    await asyncio.sleep(1)
                    log.append("body.end")
            finally:
                log.append(("fp", fp0, ctx.state(A, default=SENT).v, [k.done() for k in kids]))
            log.append("after.inner")
        return "returned"
    async def main():
        t=loop.create_task(victim())
        if inject_at is not None:
            loop.hooks[inject_at]=lambda: (log.append(("inject", inject_at, t.done())), t.cancel())
        try:
            r=await t; return ("ret", r)
        except asyncio.CancelledError:
            return ("cancelled",)
    try:
        out=loop.run_until_complete(main())
    except Hang:
        out=("HANG",)
    n=loop.iteration
    for t in asyncio.all_tasks(loop): t.cancel()
    loop.run_until_complete(asyncio.sleep(0)); loop.close()
    return out, n, log

out,N,log=run_case(); print("dry", out, N, log)
bad=0
for k in range(1,N+1):
    out,n,log=run_case(k)
    inj=[e for e in log if isinstance(e,tuple) and e[0]=="inject"]
    fps=[e for e in log if isinstance(e,tuple) and e[0]=="fp"]
    done_at_inject = inj and inj[0][2]
    verdict=[]
    if inj and not done_at_inject and out[0]!="cancelled": verdict.append("C07: cancel lost")
    for f in fps:
        if f[1]!=f[2]: verdict.append("C02: state leak")
        if not all(f[3]): verdict.append("C06: child outlives")
    print(k, out, verdict, [e for e in log if not isinstance(e,tuple)])
