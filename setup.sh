#!/bin/sh
# offline setup: hypothesis is normally already in /venv; otherwise install it beside the harness
cd "$(dirname "$0")" || exit 2
if ! /venv/bin/python -c "import hypothesis" 2>/dev/null; then
  PIP_NO_INDEX=1 /venv/bin/pip install --no-index --find-links /opt/veriftools/wheels --target ./.deps hypothesis || exit 2
fi
mkdir -p evidence replays
PYTHONPATH=./.deps /venv/bin/python -c "import hypothesis, sys; print('hypothesis', hypothesis.__version__, 'python', sys.version.split()[0])"
